#![no_main]
// C01 / C02 / C06: bytes decode into an operation history; PLV_ORACLE selects the oracle family.
use libfuzzer_sys::fuzz_target;
fuzz_target!(|data: &[u8]| {
    if let Err(m) = plv::fuzzdec::history_case(data) {
        panic!("history violation: {m}");
    }
});
