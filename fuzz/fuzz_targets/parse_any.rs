#![no_main]
// C18: first byte selects the parser entry point, the rest is the input text.
use libfuzzer_sys::fuzz_target;
fuzz_target!(|data: &[u8]| {
    if let Err(m) = plv::fuzzdec::parse_case(data) {
        panic!("C18 violation: {m}");
    }
});
