#![no_main]
// C09: bytes decode into a small level content plus a list of faults on its serialized package.
use libfuzzer_sys::fuzz_target;
fuzz_target!(|data: &[u8]| {
    if let Err(m) = plv::fuzzdec::tamper_case(data) {
        panic!("C09 violation: {m}");
    }
});
