#!/bin/bash
# tools_confirm_seeded.sh <slot> <Cxx> <A|B> : confirm a seeded change in a scratch worktree:
# patch applies, builds with and without the verif feature, the full existing suite passes with it,
# the demonstration fails with it and passes without it. Writes /tmp/seedchk/<Cxx>-<m>.result.json
set -u
SLOT=$1; ID=$2; M=$3
SRC=${SRC_ROOT:-/root/mut_results}/$ID
W=/tmp/seedchk/wt-$SLOT
export CARGO_TARGET_DIR=/tmp/seedchk/target-$SLOT CARGO_NET_OFFLINE=true
rm -rf $W; git -C /repo worktree prune; git -C /repo worktree add -q --detach $W HEAD || exit 2
cd $W
res() { python3 - "$@" <<'PY'
import json,sys
k=sys.argv[1]; d=dict(a.split('=',1) for a in sys.argv[2:])
json.dump(d,open(f'/tmp/seedchk/{k}.result.json','w'),indent=1)
PY
}
git apply $SRC/$M.diff 2>/dev/null || git apply -3 $SRC/$M.diff 2>/dev/null || { res ${KEYPFX:-}$ID-$M status=patch_does_not_apply; exit 1; }
# (demonstrations that drive the interleaving through the step hook need the verif feature)
FEAT=""; grep -q 'feature = "verif"' $SRC/${M}_demo.rs && FEAT="--features verif"
b1=$(cargo build --offline -q 2>&1 | tail -1); b1rc=$?
cargo build --offline -q --features verif >/dev/null 2>&1; b2rc=$?
suite=$(cargo test --workspace --no-fail-fast --offline 2>&1 | grep -E "^test result" | tr '\n' ' ')
cp $SRC/${M}_demo.rs tests/seeded_demo.rs
demo_with=$(timeout 600 cargo test --offline $FEAT --test seeded_demo 2>&1 | grep -E "^test result|error(\[|:)" | head -3 | tr '\n' ' ')
git reset -q --hard
cp $SRC/${M}_demo.rs tests/seeded_demo.rs
demo_without=$(timeout 900 cargo test --offline $FEAT --test seeded_demo 2>&1 | grep -E "^test result|error(\[|:)" | head -3 | tr '\n' ' ')
rm -f tests/seeded_demo.rs
cd /; git -C /repo worktree remove --force $W
res ${KEYPFX:-}$ID-$M status=ran "build_default_rc=$b1rc" "build_verif_rc=$b2rc" "suite_with_patch=$suite" "demo_with_patch=$demo_with" "demo_without_patch=$demo_without" "demo_features=$FEAT"
echo "${KEYPFX:-}$ID-$M :: suite[$suite] with[$demo_with] without[$demo_without]"
