#!/usr/bin/env python3
"""Regenerate MANIFEST.json from the table below (keeps it valid and in step with the checks built)."""
import json, subprocess
props = [json.loads(l) for l in open('/verif/properties.jsonl')]
ids = [p['id'] for p in props]
hook_commits = subprocess.run(['git','-C','/repo','log','--format=%H %s'],capture_output=True,text=True).stdout.splitlines()
hook_commits = [l.split()[0] for l in hook_commits if l.split(' ',1)[1].startswith('verif:')]
C = {}
def add(i, engine, category, text, note, technique, design):
    C[i] = dict(property_id=i, quick_cmd=f"./check {i} quick", thorough_cmd=f"./check {i} thorough",
                evidence_file=f"evidence/{i}.json", replay_cmd_template=f"./check {i} --replay {{path}}",
                engine=engine, level_claimed=dict(category=category, text=text, design_ref=design),
                level_note=note, technique=technique)
exec(open('/verif/tools_manifest_table.py').read())
m = {
 "version": 1,
 "setup_cmd": "./setup.sh",
 "hooks": {
  "guard": "verif",
  "enable": "cargo feature `verif` of the pricelevel crate: the harness (/verif/harness) and the fuzz crate (/verif/fuzz) depend on pricelevel = { path = \"/repo\", features = [\"verif\"] }, so every ./check rebuilds /repo's working tree with the hooks on",
  "baseline_off_cmd": "cd /repo && cargo test --workspace --no-fail-fast --offline",
  "source_commits": hook_commits,
  "add_only": True
 },
 "engines": ENGINES,
 "checks": [C[i] for i in ids if i in C],
 "not_applicable": [{"property_id": i, "reason": "check not built yet (work in progress; DESIGN.md section 5 describes the planned property-based check)"} for i in ids if i not in C],
 "notes": NOTES,
}
json.dump(m, open('/verif/MANIFEST.json','w'), indent=1)
print("claimed:", [i for i in ids if i in C]); print("not yet:", [i for i in ids if i not in C])
