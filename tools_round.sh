#!/bin/bash
# tools_round.sh <round-dir under /tmp> <results-dir> <Cxx>... : collect a sub-agent's out/ directory,
# remove its worktree and run the property's quick check on both patches in the isolated copy.
R="$1"; D="$2"; shift 2
for c in "$@"; do
  if [ -d "$R/$c/out" ]; then mkdir -p "$D/$c"; cp "$R/$c"/out/* "$D/$c/"; git -C /repo worktree remove --force "$R/$c" 2>/dev/null; fi
  for s in A B; do
    [ -f "$D/$c/$s.diff" ] || { echo "$c-$s: no diff"; continue; }
    echo "--- $c-$s: $(/verif/tools_mutant_iso.sh "$D/$c/$s.diff" "$c" 2>&1 | tail -1 | cut -c1-400)"
  done
done
