//! Plain-data descriptions of generated inputs (orders, ids, history operations).
//! Everything here is serde-serializable so that a shrunk failing case becomes a
//! replay file, and hashable so that distinct cases can be counted.

use pricelevel::{OrderId, OrderType, PegReferenceType, Side, TimeInForce};
use serde::{Deserialize, Serialize};
use ulid::Ulid;
use uuid::Uuid;

#[derive(Clone, Copy, Debug, PartialEq, Eq, Hash, Serialize, Deserialize)]
pub enum Kind {
    Standard,
    Iceberg,
    PostOnly,
    TrailingStop,
    Pegged,
    MarketToLimit,
    Reserve,
}

pub const ALL_KINDS: [Kind; 7] = [
    Kind::Standard,
    Kind::Iceberg,
    Kind::PostOnly,
    Kind::TrailingStop,
    Kind::Pegged,
    Kind::MarketToLimit,
    Kind::Reserve,
];

impl Kind {
    pub fn of(o: &OrderType<()>) -> Kind {
        match o {
            OrderType::Standard { .. } => Kind::Standard,
            OrderType::IcebergOrder { .. } => Kind::Iceberg,
            OrderType::PostOnly { .. } => Kind::PostOnly,
            OrderType::TrailingStop { .. } => Kind::TrailingStop,
            OrderType::PeggedOrder { .. } => Kind::Pegged,
            OrderType::MarketToLimit { .. } => Kind::MarketToLimit,
            OrderType::ReserveOrder { .. } => Kind::Reserve,
        }
    }
    pub fn has_hidden(self) -> bool {
        matches!(self, Kind::Iceberg | Kind::Reserve)
    }
    pub fn name(self) -> &'static str {
        match self {
            Kind::Standard => "Standard",
            Kind::Iceberg => "Iceberg",
            Kind::PostOnly => "PostOnly",
            Kind::TrailingStop => "TrailingStop",
            Kind::Pegged => "Pegged",
            Kind::MarketToLimit => "MarketToLimit",
            Kind::Reserve => "Reserve",
        }
    }
}

#[derive(Clone, Copy, Debug, PartialEq, Eq, Hash, Serialize, Deserialize)]
pub enum Tif {
    Gtc,
    Ioc,
    Fok,
    Day,
    Gtd(u64),
}

impl Tif {
    pub fn build(self) -> TimeInForce {
        match self {
            Tif::Gtc => TimeInForce::Gtc,
            Tif::Ioc => TimeInForce::Ioc,
            Tif::Fok => TimeInForce::Fok,
            Tif::Day => TimeInForce::Day,
            Tif::Gtd(x) => TimeInForce::Gtd(x),
        }
    }
}

/// Id description: serializes compactly, builds an `OrderId`.
#[derive(Clone, Copy, Debug, PartialEq, Eq, Hash, Serialize, Deserialize)]
pub enum IdSpec {
    /// `OrderId::Uuid` from the 128-bit value
    Uuid(#[serde(with = "u128_hex")] u128),
    /// `OrderId::Ulid` from the 128-bit value
    Ulid(#[serde(with = "u128_hex")] u128),
    /// `OrderId::from_u64`
    FromU64(u64),
}

impl IdSpec {
    pub fn build(self) -> OrderId {
        match self {
            IdSpec::Uuid(x) => OrderId::Uuid(Uuid::from_u128(x)),
            IdSpec::Ulid(x) => OrderId::Ulid(Ulid::from(x)),
            IdSpec::FromU64(x) => OrderId::from_u64(x),
        }
    }
}

/// Everything about an order except its id and price (the id comes from the
/// case's id pool, the price is the level's price).
#[derive(Clone, Copy, Debug, PartialEq, Eq, Hash, Serialize, Deserialize)]
pub struct OrderSpec {
    pub kind: Kind,
    pub display: u64,
    pub hidden: u64,
    pub buy: bool,
    pub tif: Tif,
    pub ts: u64,
    pub threshold: u64,
    pub amount: Option<u64>,
    pub auto: bool,
    pub trail: u64,
    pub lastref: u64,
    pub offset: i64,
    pub peg: u8,
    /// the order's own price field when it differs from the level's (`add_order` accepts any order;
    /// e.g. an order handed back by a price move and re-added elsewhere unchanged)
    #[serde(default)]
    pub own_price: Option<u64>,
}

pub fn peg_of(p: u8) -> PegReferenceType {
    match p % 4 {
        0 => PegReferenceType::BestBid,
        1 => PegReferenceType::BestAsk,
        2 => PegReferenceType::MidPrice,
        _ => PegReferenceType::LastTrade,
    }
}

impl OrderSpec {
    pub fn side(&self) -> Side {
        if self.buy {
            Side::Buy
        } else {
            Side::Sell
        }
    }
    pub fn total(&self) -> u64 {
        if self.kind.has_hidden() {
            self.display.saturating_add(self.hidden)
        } else {
            self.display
        }
    }
    pub fn build(&self, id: OrderId, price: u64) -> OrderType<()> {
        let price = self.own_price.unwrap_or(price);
        let side = self.side();
        let time_in_force = self.tif.build();
        let timestamp = self.ts;
        match self.kind {
            Kind::Standard => OrderType::Standard {
                id,
                price,
                quantity: self.display,
                side,
                timestamp,
                time_in_force,
                extra_fields: (),
            },
            Kind::Iceberg => OrderType::IcebergOrder {
                id,
                price,
                visible_quantity: self.display,
                hidden_quantity: self.hidden,
                side,
                timestamp,
                time_in_force,
                extra_fields: (),
            },
            Kind::PostOnly => OrderType::PostOnly {
                id,
                price,
                quantity: self.display,
                side,
                timestamp,
                time_in_force,
                extra_fields: (),
            },
            Kind::TrailingStop => OrderType::TrailingStop {
                id,
                price,
                quantity: self.display,
                side,
                timestamp,
                time_in_force,
                trail_amount: self.trail,
                last_reference_price: self.lastref,
                extra_fields: (),
            },
            Kind::Pegged => OrderType::PeggedOrder {
                id,
                price,
                quantity: self.display,
                side,
                timestamp,
                time_in_force,
                reference_price_offset: self.offset,
                reference_price_type: peg_of(self.peg),
                extra_fields: (),
            },
            Kind::MarketToLimit => OrderType::MarketToLimit {
                id,
                price,
                quantity: self.display,
                side,
                timestamp,
                time_in_force,
                extra_fields: (),
            },
            Kind::Reserve => OrderType::ReserveOrder {
                id,
                price,
                visible_quantity: self.display,
                hidden_quantity: self.hidden,
                side,
                timestamp,
                time_in_force,
                replenish_threshold: self.threshold,
                replenish_amount: self.amount,
                auto_replenish: self.auto,
                extra_fields: (),
            },
        }
    }
}

/// Replace the display (and for iceberg/reserve the hidden) quantity of an order,
/// keeping everything else. Used by the reference model only.
pub fn with_quantities(o: &OrderType<()>, display: u64, hidden: u64) -> OrderType<()> {
    let mut n = *o;
    match &mut n {
        OrderType::Standard { quantity, .. }
        | OrderType::PostOnly { quantity, .. }
        | OrderType::TrailingStop { quantity, .. }
        | OrderType::PeggedOrder { quantity, .. }
        | OrderType::MarketToLimit { quantity, .. } => *quantity = display,
        OrderType::IcebergOrder {
            visible_quantity,
            hidden_quantity,
            ..
        }
        | OrderType::ReserveOrder {
            visible_quantity,
            hidden_quantity,
            ..
        } => {
            *visible_quantity = display;
            *hidden_quantity = hidden;
        }
    }
    n
}

/// Same order under another id (used when the generated slot is already resting).
pub fn with_id(o: &OrderType<()>, new_id: OrderId) -> OrderType<()> {
    let mut n = *o;
    match &mut n {
        OrderType::Standard { id, .. }
        | OrderType::PostOnly { id, .. }
        | OrderType::TrailingStop { id, .. }
        | OrderType::PeggedOrder { id, .. }
        | OrderType::MarketToLimit { id, .. }
        | OrderType::IcebergOrder { id, .. }
        | OrderType::ReserveOrder { id, .. } => *id = new_id,
    }
    n
}

/// Same order with another timestamp (an order resubmitted after a cancel).
pub fn with_timestamp(o: &OrderType<()>, ts: u64) -> OrderType<()> {
    let mut n = *o;
    match &mut n {
        OrderType::Standard { timestamp, .. }
        | OrderType::PostOnly { timestamp, .. }
        | OrderType::TrailingStop { timestamp, .. }
        | OrderType::PeggedOrder { timestamp, .. }
        | OrderType::MarketToLimit { timestamp, .. }
        | OrderType::IcebergOrder { timestamp, .. }
        | OrderType::ReserveOrder { timestamp, .. } => *timestamp = ts,
    }
    n
}

/// Identity of an id as the harness sees it: format variant + the 128 bits. Deliberately not
/// the library's own `PartialEq` / `Hash` for `OrderId` (a change to those must not change what
/// the generators and the model consider "the same id").
pub type IdKey = (u8, u128);

pub fn id_key(id: OrderId) -> IdKey {
    match id {
        OrderId::Uuid(u) => (0, u.as_u128()),
        OrderId::Ulid(l) => (1, u128::from(l)),
    }
}

/// Short readable form of an id: `u<n>` for `OrderId::from_u64(n)`, otherwise head..tail.
pub fn short_id(id: OrderId) -> String {
    match id {
        OrderId::Uuid(u) => {
            let v = u.as_u128();
            if v & 0xFFFF_FFFF_FFFF_FFFF == 0 {
                format!("u{}", (v >> 64) as u64)
            } else {
                let t = u.simple().to_string();
                format!("{}..{}", &t[..4], &t[t.len() - 4..])
            }
        }
        OrderId::Ulid(l) => {
            let t = l.to_string();
            format!("L{}..{}", &t[..3], &t[t.len() - 4..])
        }
    }
}

/// Compact one-line rendering for evidence samples / failure messages.
pub fn brief(o: &OrderType<()>) -> String {
    let k = Kind::of(o);
    let short_owned = short_id(o.id());
    let short = short_owned.as_str();
    match o {
        OrderType::ReserveOrder {
            replenish_threshold,
            replenish_amount,
            auto_replenish,
            ..
        } => format!(
            "{}#{}(d={},h={},thr={},amt={:?},auto={},ts={})",
            k.name(),
            short,
            o.visible_quantity(),
            o.hidden_quantity(),
            replenish_threshold,
            replenish_amount,
            auto_replenish,
            o.timestamp()
        ),
        OrderType::IcebergOrder { .. } => format!(
            "{}#{}(d={},h={},ts={})",
            k.name(),
            short,
            o.visible_quantity(),
            o.hidden_quantity(),
            o.timestamp()
        ),
        _ => format!(
            "{}#{}(q={},ts={})",
            k.name(),
            short,
            o.visible_quantity(),
            o.timestamp()
        ),
    }
}

/// serde for u128 as a hex string (serde_json::Value cannot hold 128-bit numbers)
pub mod u128_hex {
    use serde::{Deserialize, Deserializer, Serializer};
    pub fn serialize<S: Serializer>(v: &u128, s: S) -> Result<S::Ok, S::Error> {
        s.serialize_str(&format!("{:#x}", v))
    }
    pub fn deserialize<'de, D: Deserializer<'de>>(d: D) -> Result<u128, D::Error> {
        let t = String::deserialize(d)?;
        let t = t.trim_start_matches("0x");
        u128::from_str_radix(t, 16).map_err(serde::de::Error::custom)
    }
}
