//! Parallel proptest driver, statistics, evidence and replay plumbing.

use proptest::strategy::Strategy;
use proptest::test_runner::{Config, RngSeed, TestCaseError, TestError, TestRunner};
use serde::de::DeserializeOwned;
use serde::Serialize;
use serde_json::{json, Value};
use std::collections::hash_map::DefaultHasher;
use std::collections::{BTreeMap, HashSet};
use std::fmt::Debug;
use std::hash::{Hash, Hasher};
use std::sync::atomic::{AtomicBool, Ordering};
use std::sync::Mutex;
use std::time::Instant;

#[derive(Clone, Copy, Debug, PartialEq, Eq)]
pub enum Tier {
    Quick,
    Thorough,
}

impl Tier {
    pub fn name(self) -> &'static str {
        match self {
            Tier::Quick => "quick",
            Tier::Thorough => "thorough",
        }
    }
    pub fn pick<T>(self, quick: T, thorough: T) -> T {
        match self {
            Tier::Quick => quick,
            Tier::Thorough => thorough,
        }
    }
}

#[derive(Clone, Debug)]
pub struct RunCfg {
    pub property: &'static str,
    pub tier: Tier,
    pub seed: u64,
    pub workers: usize,
    /// multiply case counts (VERIF_SCALE, default 1.0) — for experiments
    pub scale: f64,
    /// /verif (known_findings.json, known/, replays/, evidence/)
    pub root: String,
}

impl RunCfg {
    /// like `cases` but without rounding up to one case per worker (for very expensive cases)
    pub fn cases_few(&self, quick: u64, thorough: u64) -> u64 {
        ((self.tier.pick(quick, thorough) as f64 * self.scale) as u64).max(1)
    }
    pub fn cases(&self, quick: u64, thorough: u64) -> u64 {
        let n = self.tier.pick(quick, thorough) as f64 * self.scale;
        (n as u64).max(self.workers as u64)
    }
}

pub fn hash_of<T: Hash>(t: &T) -> u64 {
    let mut h = DefaultHasher::new();
    t.hash(&mut h);
    h.finish()
}

pub fn splitmix(mut x: u64) -> u64 {
    x = x.wrapping_add(0x9E37_79B9_7F4A_7C15);
    let mut z = x;
    z = (z ^ (z >> 30)).wrapping_mul(0xBF58_476D_1CE4_E5B9);
    z = (z ^ (z >> 27)).wrapping_mul(0x94D0_49BB_1331_11EB);
    z ^ (z >> 31)
}

/// Per-worker statistics, merged at the end.
#[derive(Default, Debug)]
pub struct Stats {
    pub evaluations: u64,
    pub nontrivial: HashSet<u64>,
    pub hist: BTreeMap<String, u64>,
    pub samples: Vec<Value>,
    pub known: BTreeMap<String, u64>,
    /// frozen once a failure has been seen (proptest re-runs the closure while shrinking)
    pub frozen: bool,
}

pub const MAX_SAMPLES_PER_WORKER: usize = 2;
pub const NT_CAP: usize = 1_500_000;

impl Stats {
    pub fn count(&mut self, key: &str) {
        self.add(key, 1);
    }
    pub fn add(&mut self, key: &str, n: u64) {
        if self.frozen {
            return;
        }
        *self.hist.entry(key.to_string()).or_insert(0) += n;
    }
    pub fn known_hit(&mut self, id: &str) {
        if self.frozen {
            return;
        }
        *self.known.entry(id.to_string()).or_insert(0) += 1;
    }
    pub fn eval(&mut self) {
        if !self.frozen {
            self.evaluations += 1;
        }
    }
    /// Count a distinct non-trivial case. Each worker tracks at most NT_CAP hashes; beyond that
    /// further cases are not counted (conservative under-count, stated in the evidence).
    pub fn nontrivial(&mut self, h: u64) -> bool {
        if self.frozen {
            return false;
        }
        if self.nontrivial.len() >= NT_CAP {
            *self.hist.entry("nontrivial_beyond_tracking_cap_not_counted".to_string()).or_insert(0) += 1;
            return false;
        }
        self.nontrivial.insert(h)
    }
    pub fn want_sample(&self) -> bool {
        !self.frozen && self.samples.len() < MAX_SAMPLES_PER_WORKER
    }
    pub fn sample(&mut self, v: Value) {
        if self.want_sample() {
            self.samples.push(v);
        }
    }
    pub fn merge(&mut self, o: Stats) {
        self.evaluations += o.evaluations;
        self.nontrivial.extend(o.nontrivial);
        for (k, v) in o.hist {
            *self.hist.entry(k).or_insert(0) += v;
        }
        for (k, v) in o.known {
            *self.known.entry(k).or_insert(0) += v;
        }
        self.samples.extend(o.samples);
    }
}

pub struct Failure<C> {
    pub case: C,
    pub reason: String,
}

/// Run `total` generated cases over `cfg.workers` threads. `run` returns Err(reason) for
/// a violation. Returns merged statistics and the first (shrunk) failure if any.
pub fn explore<C, S, MS, F>(
    cfg: &RunCfg,
    label: &str,
    total: u64,
    make_strategy: MS,
    run: F,
) -> (Stats, Option<Failure<C>>)
where
    C: Debug + Clone + Send + 'static,
    S: Strategy<Value = C>,
    MS: Fn() -> S + Sync,
    F: Fn(&C, &mut Stats) -> Result<(), String> + Sync,
{
    let workers = cfg.workers.max(1).min(total.max(1) as usize);
    let per = (total + workers as u64 - 1) / workers as u64;
    let stop = AtomicBool::new(false);
    let merged = Mutex::new(Stats::default());
    let failure: Mutex<Option<Failure<C>>> = Mutex::new(None);
    let label_h = hash_of(&label);
    std::thread::scope(|scope| {
        for w in 0..workers {
            let stop = &stop;
            let merged = &merged;
            let failure = &failure;
            let run = &run;
            let make_strategy = &make_strategy;
            let seed = splitmix(cfg.seed ^ splitmix(label_h ^ (w as u64 + 1)));
            std::thread::Builder::new()
                .name(format!("w{w}"))
                .stack_size(16 << 20)
                .spawn_scoped(scope, move || {
                    let mut config = Config::default();
                    config.cases = per.min(u32::MAX as u64) as u32;
                    config.failure_persistence = None;
                    config.rng_seed = RngSeed::Fixed(seed);
                    config.max_shrink_iters = 4000;
                    // shrinking only affects how small the replay is, never the verdict: cap its wall time
                    config.max_shrink_time = 90_000;
                    config.max_global_rejects = 1 << 20;
                    config.verbose = 0;
                    let mut runner = TestRunner::new(config);
                    let stats = std::cell::RefCell::new(Stats::default());
                    let strategy = make_strategy();
                    // every fourth worker runs under a subscriber that enables and evaluates every
                    // log event (the library's behaviour must not depend on the log level)
                    let traced = w % 4 == 3;
                    if traced {
                        stats.borrow_mut().count("worker/under_trace_level_subscriber");
                    }
                    let res = maybe_traced(traced, || runner.run(&strategy, |case| {
                        let mut st = stats.borrow_mut();
                        if !st.frozen && stop.load(Ordering::Relaxed) {
                            // another worker failed: wind down quickly
                            return Ok(());
                        }
                        st.eval();
                        let r = std::panic::catch_unwind(std::panic::AssertUnwindSafe(|| {
                            run(&case, &mut st)
                        }));
                        let r = match r {
                            Ok(r) => r,
                            Err(p) => Err(format!("panic: {}", panic_message(&p))),
                        };
                        match r {
                            Ok(()) => Ok(()),
                            Err(reason) => {
                                st.frozen = true;
                                Err(TestCaseError::fail(reason))
                            }
                        }
                    }));
                    let st = stats.into_inner();
                    if let Err(e) = res {
                        match e {
                            TestError::Fail(reason, case) => {
                                stop.store(true, Ordering::Relaxed);
                                let mut f = failure.lock().unwrap();
                                if f.is_none() {
                                    *f = Some(Failure {
                                        case,
                                        reason: reason.message().to_string(),
                                    });
                                }
                            }
                            TestError::Abort(reason) => {
                                eprintln!("[{label}] worker {w}: generator aborted: {reason}");
                                std::process::exit(2);
                            }
                        }
                    }
                    merged.lock().unwrap().merge(st);
                })
                .expect("spawn worker");
        }
    });
    (
        merged.into_inner().unwrap(),
        failure.into_inner().unwrap(),
    )
}

pub fn panic_message(p: &Box<dyn std::any::Any + Send>) -> String {
    if let Some(s) = p.downcast_ref::<&str>() {
        s.to_string()
    } else if let Some(s) = p.downcast_ref::<String>() {
        s.clone()
    } else {
        "<non-string panic payload>".to_string()
    }
}

/// Silence the default panic printer (panics are expected inputs to `catch_unwind`
/// in several checks); the location is kept in a thread-local for messages.
pub fn install_quiet_panic_hook() {
    std::panic::set_hook(Box::new(|info| {
        let loc = info
            .location()
            .map(|l| format!("{}:{}", l.file(), l.line()))
            .unwrap_or_default();
        if std::env::var_os("VERIF_DEBUG_PANICS").is_some() {
            eprintln!("panic: {info}");
        }
        LAST_PANIC_LOC.with(|c| *c.borrow_mut() = loc);
    }));
}

thread_local! {
    pub static LAST_PANIC_LOC: std::cell::RefCell<String> = const { std::cell::RefCell::new(String::new()) };
}

pub fn last_panic_loc() -> String {
    LAST_PANIC_LOC.with(|c| c.borrow().clone())
}

/// Catch a panic from `f`, returning a readable message with its location.
pub fn catch<R>(f: impl FnOnce() -> R) -> Result<R, String> {
    match std::panic::catch_unwind(std::panic::AssertUnwindSafe(f)) {
        Ok(r) => Ok(r),
        Err(p) => Err(format!("{} at {}", panic_message(&p), last_panic_loc())),
    }
}

// ---------------------------------------------------------------------------------
// Report: what one check run produced.

pub struct Report {
    pub property: &'static str,
    pub level: &'static str,
    pub rule: String,
    pub assumptions: Vec<String>,
    pub stats: Stats,
    pub exhaustive: Option<bool>,
    pub extra: BTreeMap<String, Value>,
    /// violation: (reason, replay json)
    pub violation: Option<(String, Value)>,
    /// KNOWN-FINDING lines to print (id, text)
    pub known_lines: Vec<(String, String)>,
}

impl Report {
    pub fn new(property: &'static str, level: &'static str, rule: &str) -> Self {
        Report {
            property,
            level,
            rule: rule.to_string(),
            assumptions: Vec::new(),
            stats: Stats::default(),
            exhaustive: None,
            extra: BTreeMap::new(),
            violation: None,
            known_lines: Vec::new(),
        }
    }
    pub fn absorb<C: Serialize>(&mut self, engine: &str, part: (Stats, Option<Failure<C>>)) {
        let (stats, failure) = part;
        self.stats.merge(stats);
        if let Some(f) = failure {
            if self.violation.is_none() {
                self.violation = Some((
                    f.reason,
                    json!({"property": self.property, "engine": engine, "case": serde_json::to_value(&f.case).unwrap_or_else(|e| json!({"unserializable_case": e.to_string()}))}),
                ));
            }
        }
    }
    pub fn failed(&self) -> bool {
        self.violation.is_some()
    }
}

pub fn write_evidence(cfg: &RunCfg, rep: &Report, wall_s: f64, path: &str) {
    let mut samples = rep.stats.samples.clone();
    samples.truncate(6);
    let mut coverage = json!({
        "evaluations": rep.stats.evaluations,
        "distinct_nontrivial": rep.stats.nontrivial.len(),
        "rule": rep.rule,
        "samples": samples,
        "histogram": rep.stats.hist,
        "known_finding_hits": rep.stats.known,
    });
    if let Some(e) = rep.exhaustive {
        coverage["exhaustive"] = json!(e);
    }
    for (k, v) in &rep.extra {
        coverage[k] = v.clone();
    }
    let ev = json!({
        "property_id": rep.property,
        "tier": cfg.tier.name(),
        "seed": cfg.seed,
        "level": rep.level,
        "coverage": coverage,
        "assumptions": rep.assumptions,
        "wall_s": wall_s,
        "violations": if rep.violation.is_some() { 1 } else { 0 },
    });
    if let Some(dir) = std::path::Path::new(path).parent() {
        let _ = std::fs::create_dir_all(dir);
    }
    std::fs::write(path, serde_json::to_string_pretty(&ev).unwrap()).expect("write evidence");
}

pub fn save_replay(property: &str, replay: &Value, dir: &str) -> String {
    let _ = std::fs::create_dir_all(dir);
    let text = serde_json::to_string_pretty(replay).unwrap();
    let h = hash_of(&text);
    let path = format!("{dir}/{property}-{h:016x}.json");
    std::fs::write(&path, text).expect("write replay");
    path
}

pub fn load_case<C: DeserializeOwned>(replay: &Value) -> Result<C, String> {
    serde_json::from_value(replay["case"].clone()).map_err(|e| format!("bad replay case: {e}"))
}

pub struct Timer(Instant);
impl Timer {
    pub fn start() -> Self {
        Timer(Instant::now())
    }
    pub fn secs(&self) -> f64 {
        self.0.elapsed().as_secs_f64()
    }
}


/// A subscriber that enables every tracing event and span and formats every field (and drops
/// the text): log statements are then evaluated exactly as under `LOGLEVEL=TRACE`.
pub struct EvalAllSubscriber;

struct FieldSink;

impl tracing::field::Visit for FieldSink {
    fn record_debug(&mut self, _field: &tracing::field::Field, value: &dyn std::fmt::Debug) {
        let _ = format!("{:?}", value);
    }
}

impl tracing::Subscriber for EvalAllSubscriber {
    fn enabled(&self, _m: &tracing::Metadata<'_>) -> bool {
        true
    }
    fn new_span(&self, a: &tracing::span::Attributes<'_>) -> tracing::span::Id {
        a.record(&mut FieldSink);
        tracing::span::Id::from_u64(1)
    }
    fn record(&self, _s: &tracing::span::Id, v: &tracing::span::Record<'_>) {
        v.record(&mut FieldSink);
    }
    fn record_follows_from(&self, _s: &tracing::span::Id, _f: &tracing::span::Id) {}
    fn event(&self, e: &tracing::Event<'_>) {
        e.record(&mut FieldSink);
    }
    fn enter(&self, _s: &tracing::span::Id) {}
    fn exit(&self, _s: &tracing::span::Id) {}
}

/// Run `f` with the evaluate-everything subscriber installed for this thread (or plainly).
pub fn maybe_traced<T>(traced: bool, f: impl FnOnce() -> T) -> T {
    if traced {
        tracing::subscriber::with_default(EvalAllSubscriber, f)
    } else {
        f()
    }
}
