//! Shared proptest strategies (DESIGN.md §3).

use crate::spec::*;
use proptest::prelude::*;
use proptest::strategy::BoxedStrategy;

pub const BOUNDARY_U64: [u64; 17] = [
    0,
    1,
    2,
    79,
    80,
    81,
    (1 << 16) - 1,
    1 << 31,
    (1 << 32) - 1,
    1 << 32,
    (1 << 32) + 1,
    (1 << 53) - 1,
    (1 << 53) + 1,
    (1 << 63) - 1,
    1 << 63,
    u64::MAX - 1,
    u64::MAX,
];

pub fn boundary_u64() -> BoxedStrategy<u64> {
    prop_oneof![
        8 => proptest::sample::select(BOUNDARY_U64.to_vec()),
        2 => any::<u64>(),
        2 => 0u64..1000,
        // just below / around a power of two or ten (width- and digit-count-dependent code)
        1 => (proptest::sample::select(vec![8u32, 15, 16, 24, 31, 32, 33, 48, 53, 62, 63]), 0u64..4, any::<bool>()).prop_map(|(k, d, up)| if up { (1u64 << k).saturating_add(d) } else { (1u64 << k) - 1 - d }),
        1 => (1u32..20, 0u64..3, any::<bool>()).prop_map(|(k, d, up)| { let p = 10u64.pow(k.min(19)); if up { p.saturating_add(d) } else { p - 1 - d } }),
        1 => (1u64 << 31)..(1u64 << 32),
    ]
    .boxed()
}

pub fn boundary_i64() -> BoxedStrategy<i64> {
    prop_oneof![
        3 => proptest::sample::select(vec![i64::MIN, i64::MIN + 1, -1, 0, 1, i64::MAX - 1, i64::MAX, -(1i64 << 53) - 1, (1i64 << 53) + 1]),
        1 => any::<i64>(),
        1 => -1000i64..1000,
    ]
    .boxed()
}

pub fn boundary_u128() -> BoxedStrategy<u128> {
    prop_oneof![
        2 => proptest::sample::select(vec![0u128, 1, u128::MAX, u128::MAX - 1, 1u128 << 64, (1u128 << 64) - 1, 1u128 << 127]),
        3 => any::<u128>(),
    ]
    .boxed()
}

#[derive(Clone, Copy, Debug, PartialEq, Eq, Hash, serde::Serialize, serde::Deserialize)]
pub enum Profile {
    /// price <= 10_000, quantities 0..=12 (70 %) / ..=200 (30 %)
    Small,
    /// price in {0,1}; quantities from the 64-bit boundary set
    Boundary,
}

/// Small quantities; `zero_ok` decides whether 0 can be produced.
pub fn small_qty(zero_ok: bool) -> BoxedStrategy<u64> {
    let lo = if zero_ok { 0u64 } else { 1u64 };
    prop_oneof![
        7 => lo..=12u64,
        3 => lo..=200u64,
    ]
    .boxed()
}

pub fn tif() -> BoxedStrategy<Tif> {
    prop_oneof![
        3 => Just(Tif::Gtc),
        1 => Just(Tif::Ioc),
        1 => Just(Tif::Fok),
        1 => Just(Tif::Day),
        1 => Just(Tif::Gtd(0)),
        1 => Just(Tif::Gtd(u64::MAX)),
        1 => any::<u64>().prop_map(Tif::Gtd),
        1 => (1_600_000_000_000u64..1_900_000_000_000).prop_map(Tif::Gtd),
    ]
    .boxed()
}

pub fn id_spec() -> BoxedStrategy<IdSpec> {
    prop_oneof![
        1 => Just(IdSpec::Uuid(0)),
        1 => Just(IdSpec::Uuid(u128::MAX)),
        3 => any::<u128>().prop_map(IdSpec::Uuid),
        1 => Just(IdSpec::Ulid(0)),
        1 => Just(IdSpec::Ulid(u128::MAX)),
        3 => any::<u128>().prop_map(IdSpec::Ulid),
        2 => (0u64..64).prop_map(IdSpec::FromU64),
        1 => any::<u64>().prop_map(IdSpec::FromU64),
    ]
    .boxed()
}

/// A pool of `n` pairwise distinct ids (distinct as `OrderId` values).
pub fn id_pool(min: usize, max: usize) -> BoxedStrategy<Vec<IdSpec>> {
    proptest::collection::vec(id_spec(), min..=max)
        .prop_map(|mut v| {
            // make distinct by construction: replace duplicates by fresh FromU64 ids
            let mut seen = std::collections::HashSet::new();
            let mut fresh = 1_000_000u64;
            for s in v.iter_mut() {
                while !seen.insert(id_key(s.build())) {
                    *s = IdSpec::FromU64(fresh);
                    fresh += 1;
                }
            }
            v
        })
        .boxed()
}

#[derive(Clone, Copy, Debug)]
pub struct OrderGenCfg {
    pub profile: Profile,
    pub zero_display: bool,
    pub zero_amount: bool,
    /// weights: [Standard, Iceberg, PostOnly, TrailingStop, Pegged, MarketToLimit, Reserve]
    pub kind_weights: [u32; 7],
}

impl OrderGenCfg {
    pub fn all_types(profile: Profile, zeros: bool) -> Self {
        OrderGenCfg {
            profile,
            zero_display: zeros,
            zero_amount: zeros,
            kind_weights: [3, 4, 1, 1, 1, 1, 5],
        }
    }
}

pub fn kind(weights: [u32; 7]) -> BoxedStrategy<Kind> {
    let mut v = Vec::new();
    for (i, k) in ALL_KINDS.iter().enumerate() {
        if weights[i] > 0 {
            v.push((weights[i], Just(*k)));
        }
    }
    proptest::strategy::Union::new_weighted(v).boxed()
}

fn timestamp() -> BoxedStrategy<u64> {
    prop_oneof![
        4 => 1u64..6,
        2 => 1_600_000_000_000u64..1_600_000_000_100,
        1 => Just(0u64),
        1 => Just(u64::MAX),
        1 => any::<u64>(),
        // 64-bit / sign boundaries, also offset by a wall-clock-sized amount of milliseconds
        // (timestamps are compared with and subtracted from the current time)
        1 => boundary_u64(),
        1 => (proptest::sample::select(vec![1u64 << 63, (1u64 << 63) - 1, 1u64 << 32, 1u64 << 53, 0u64]), 0u64..4_000_000_000_000, any::<bool>())
            .prop_map(|(b, d, up)| if up { b.wrapping_add(d) } else { b.wrapping_sub(d) }),
    ]
    .boxed()
}

/// The order's own price field: the level's price (None) seven times out of eight, otherwise a
/// value of its own (orders are accepted whatever price they carry; the level's price governs).
fn own_price(profile: Profile) -> BoxedStrategy<Option<u64>> {
    match profile {
        Profile::Small => prop_oneof![
            14 => Just(None),
            1 => proptest::sample::select(vec![0u64, 1, 2, 99, 100, 101, 10_000, 10_001]).prop_map(Some),
            1 => (0u64..10_002).prop_map(Some),
        ]
        .boxed(),
        // (boundary quantities: keep price * quantity within 64 bits)
        Profile::Boundary => prop_oneof![14 => Just(None), 1 => Just(Some(0u64)), 1 => Just(Some(1u64))].boxed(),
    }
}

/// One order description. Quantities follow the profile; in the boundary profile the
/// interpreter additionally keeps the running sum within u64 (headroom).
pub fn order_spec(cfg: OrderGenCfg) -> BoxedStrategy<OrderSpec> {
    let (disp, hid): (BoxedStrategy<u64>, BoxedStrategy<u64>) = match cfg.profile {
        Profile::Small => (small_qty(cfg.zero_display), small_qty(true)),
        Profile::Boundary => {
            let d = if cfg.zero_display {
                boundary_u64()
            } else {
                boundary_u64().prop_map(|x| x.max(1)).boxed()
            };
            (d, boundary_u64())
        }
    };
    let threshold = prop_oneof![
        2 => Just(0u64), 2 => Just(1u64), 1 => Just(2u64), 1 => Just(3u64), 1 => Just(5u64),
        1 => Just(50u64), 1 => Just(u64::MAX), 1 => 0u64..300,
    ];
    let amount: BoxedStrategy<Option<u64>> = if cfg.zero_amount {
        prop_oneof![
            2 => Just(None), 1 => Just(Some(0u64)), 2 => Just(Some(1u64)), 1 => Just(Some(2u64)),
            1 => Just(Some(3u64)), 1 => Just(Some(5u64)), 1 => Just(Some(80u64)), 1 => Just(Some(81u64)),
            1 => Just(Some(u64::MAX)), 1 => (0u64..300).prop_map(Some),
        ]
        .boxed()
    } else {
        prop_oneof![
            2 => Just(None), 2 => Just(Some(1u64)), 1 => Just(Some(2u64)),
            1 => Just(Some(3u64)), 1 => Just(Some(5u64)), 1 => Just(Some(80u64)), 1 => Just(Some(81u64)),
            1 => Just(Some(u64::MAX)), 1 => (1u64..300).prop_map(Some),
        ]
        .boxed()
    };
    (
        kind(cfg.kind_weights),
        disp,
        hid,
        any::<bool>(),
        tif(),
        timestamp(),
        threshold,
        amount,
        prop_oneof![3 => Just(true), 1 => Just(false)],
        (boundary_u64(), boundary_u64(), boundary_i64(), 0u8..4, own_price(cfg.profile)),
    )
        .prop_map(
            |(kind, display, hidden, buy, tif, ts, threshold, amount, auto, (trail, lastref, offset, peg, own_price))| {
                OrderSpec {
                    kind,
                    display,
                    hidden: if kind.has_hidden() { hidden } else { 0 },
                    buy,
                    tif,
                    ts,
                    threshold,
                    amount,
                    auto,
                    trail,
                    lastref,
                    offset,
                    peg,
                    own_price,
                }
            },
        )
        .boxed()
}

/// Sizes for bulk operations, list lengths and level depths: 1..=8 half of the time, otherwise a
/// value just around a power of two 2^k (k = 5..=max_pow, from 3 below to 8 above, so that a
/// threshold at 2^k is crossed either way), each power weighted by 2^(-k/2): large sizes are rare
/// but every magnitude up to 2^max_pow keeps a share of the work that shrinks only with the
/// square root of its cost.
pub fn size_class(max_pow: u32) -> BoxedStrategy<u32> {
    let mut v: Vec<(u32, BoxedStrategy<u32>)> = Vec::new();
    let top = max_pow.max(5);
    let w = |k: u32| ((16.0 * 2f64.powf((top - k) as f64 / 2.0)).round() as u32).max(1);
    let total: u32 = (5..=top).map(w).sum();
    v.push((total, (1u32..=8).boxed()));
    for k in 5..=top {
        let base = 1u32 << k;
        v.push((w(k), ((base - 3)..=(base + 8)).boxed()));
    }
    proptest::strategy::Union::new_weighted(v).boxed()
}

/// Longest-encoding variant of an order description: every numeric field gets a 20-digit value
/// (length-dependent code paths; used with low probability by the codec generators).
pub fn widest(mut s: OrderSpec, salt: u64) -> OrderSpec {
    let big = |k: u64| u64::MAX - (salt.wrapping_mul(2654435761).wrapping_add(k) % 1_000_000);
    s.display = big(1);
    s.hidden = if s.kind.has_hidden() { big(2) } else { 0 };
    s.ts = big(3);
    s.threshold = big(4);
    s.amount = Some(big(5));
    s.trail = big(6);
    s.lastref = big(7);
    s.offset = i64::MIN + (salt % 1000) as i64;
    s.tif = Tif::Gtd(big(8));
    s
}

/// Map a generated index monotonically onto 0..len (keeps shrinking effective).
pub fn pick(i: u16, len: usize) -> usize {
    if len == 0 {
        0
    } else {
        ((i as usize) * len) >> 16
    }
}
