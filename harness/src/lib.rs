//! plv — property-based checks for joaquinbejar/PriceLevel (library part, shared with /verif/fuzz).
#![allow(dead_code)]
pub mod checks;
pub mod conc;
pub mod fuzzdec;
pub mod gen;
pub mod hooks;
pub mod known;
pub mod model;
pub mod runner;
pub mod sched;
pub mod seq;
pub mod spec;
