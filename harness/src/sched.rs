//! Engine E2 core: a deterministic baton scheduler driven by the /repo `verif` hook.
//!
//! Managed threads are real OS threads but only the baton holder runs. Every atomic / map /
//! queue operation of the crate calls the hook first; there the next unread byte `c` of the
//! schedule decides: 0 → the current thread continues, otherwise the `(c-1) mod k`-th other
//! runnable thread gets the baton. An execution is a pure function of (program, schedule).
//! After a thread gets (or keeps) the baton and before it performs its operation an optional
//! probe runs with the world stopped.

use pricelevel::verif::{set_thread_hook, unobserved, Step, StepKind};
use std::rc::Rc;
use std::sync::{Arc, Condvar, Mutex};

#[derive(Clone, Copy, Debug, PartialEq, Eq)]
enum Status {
    Waiting, // not started yet or parked at a yield point
    Finished,
}

struct Core {
    current: usize,
    status: Vec<Status>,
    pos: usize,
    step: u64,
    switches: u64,
    abort: bool,
}

pub struct Shared {
    core: Mutex<Core>,
    cv: Condvar,
    schedule: Vec<u8>,
    budget: u64,
}

/// Payload used to unwind a managed thread when the execution is aborted.
pub struct Aborted;

#[derive(Debug, Clone, Default)]
pub struct ExecInfo {
    pub steps: u64,
    pub switches: u64,
    pub schedule_used: usize,
    /// step budget exceeded (livelock / non-termination under this schedule)
    pub budget_exceeded: bool,
    /// panic messages of managed threads (not counting scheduler aborts)
    pub panics: Vec<(usize, String)>,
}

/// Handle given to each managed thread's body.
pub struct Ctx {
    pub tid: usize,
    shared: Arc<Shared>,
}

impl Ctx {
    /// global step clock (number of shared-memory steps performed so far)
    pub fn now(&self) -> u64 {
        self.shared.core.lock().unwrap().step
    }
}

pub type Probe<'a> = dyn Fn(usize, u64, &Step) + Sync + 'a;

impl Shared {
    fn pick_next_after_finish(core: &Core) -> Option<usize> {
        core.status.iter().position(|s| *s == Status::Waiting)
    }

    fn wait_for_baton(&self, tid: usize) {
        let mut core = self.core.lock().unwrap();
        while core.current != tid && !core.abort {
            core = self.cv.wait(core).unwrap();
        }
        if core.abort {
            drop(core);
            std::panic::resume_unwind(Box::new(Aborted));
        }
    }

    /// called from the hook of thread `tid` before each shared-memory operation
    fn yield_point(&self, tid: usize, step: &Step, probe: Option<&Probe>) {
        let mut core = self.core.lock().unwrap();
        if core.abort {
            drop(core);
            std::panic::resume_unwind(Box::new(Aborted));
        }
        core.step += 1;
        if core.step > self.budget {
            core.abort = true;
            self.cv.notify_all();
            drop(core);
            std::panic::resume_unwind(Box::new(Aborted));
        }
        let c = if core.pos < self.schedule.len() {
            let c = self.schedule[core.pos];
            core.pos += 1;
            c
        } else {
            0
        };
        if c != 0 {
            let others: Vec<usize> = (0..core.status.len())
                .filter(|i| *i != tid && core.status[*i] == Status::Waiting)
                .collect();
            if !others.is_empty() {
                let next = others[(c as usize - 1) % others.len()];
                core.current = next;
                core.switches += 1;
                self.cv.notify_all();
                while core.current != tid && !core.abort {
                    core = self.cv.wait(core).unwrap();
                }
                if core.abort {
                    drop(core);
                    std::panic::resume_unwind(Box::new(Aborted));
                }
            }
        }
        let now = core.step;
        drop(core);
        if let Some(p) = probe {
            unobserved(|| p(tid, now, step));
        }
    }

    fn finish(&self, tid: usize) {
        let mut core = self.core.lock().unwrap();
        core.status[tid] = Status::Finished;
        if core.current == tid {
            if let Some(n) = Self::pick_next_after_finish(&core) {
                core.current = n;
            }
        }
        self.cv.notify_all();
    }
}

/// Run `bodies` (one per managed thread) under `schedule`. `first` = which thread starts
/// (taken modulo the thread count). Returns what happened; results travel through whatever
/// the bodies capture.
pub fn run_scheduled<'a>(
    schedule: &[u8],
    first: u8,
    budget: u64,
    bodies: Vec<Box<dyn FnOnce(&Ctx) + Send + 'a>>,
    probe: Option<&'a Probe<'a>>,
) -> ExecInfo {
    let n = bodies.len();
    let shared = Arc::new(Shared {
        core: Mutex::new(Core {
            current: if n == 0 { 0 } else { first as usize % n },
            status: vec![Status::Waiting; n],
            pos: 0,
            step: 0,
            switches: 0,
            abort: false,
        }),
        cv: Condvar::new(),
        schedule: schedule.to_vec(),
        budget,
    });
    let panics: Arc<Mutex<Vec<(usize, String)>>> = Arc::new(Mutex::new(Vec::new()));
    let (done_tx, done_rx) = std::sync::mpsc::channel::<()>();
    for (tid, body) in bodies.into_iter().enumerate() {
        let shared = shared.clone();
        let panics = panics.clone();
        let done_tx = done_tx.clone();
        let job: Box<dyn FnOnce() + Send + 'a> = Box::new(move || {
            let ctx = Ctx { tid, shared: shared.clone() };
            let r = std::panic::catch_unwind(std::panic::AssertUnwindSafe(|| {
                shared.wait_for_baton(tid);
                let sh = shared.clone();
                let probe_ptr: Option<&Probe> = probe;
                // the hook is thread-local and removed before this job ends, and
                // run_scheduled does not return before every job has ended
                let hook: Rc<dyn Fn(&Step)> = unsafe {
                    let p: Option<&'static Probe<'static>> = std::mem::transmute(probe_ptr);
                    Rc::new(move |s: &Step| sh.yield_point(tid, s, p))
                };
                set_thread_hook(Some(hook));
                body(&ctx);
            }));
            set_thread_hook(None);
            if let Err(p) = r {
                if p.downcast_ref::<Aborted>().is_none() {
                    let msg = format!(
                        "{} at {}",
                        crate::runner::panic_message(&p),
                        crate::runner::last_panic_loc()
                    );
                    panics.lock().unwrap().push((tid, msg));
                }
            }
            shared.finish(tid);
            let _ = done_tx.send(());
        });
        // SAFETY: the job borrows data living for 'a; we block below until it has finished.
        let job: Job = unsafe { std::mem::transmute::<Box<dyn FnOnce() + Send + 'a>, Job>(job) };
        pool_submit(tid, job);
    }
    drop(done_tx);
    for _ in 0..n {
        done_rx.recv().expect("managed thread vanished");
    }
    let panics = std::mem::take(&mut *panics.lock().unwrap());
    let core = shared.core.lock().unwrap();
    ExecInfo {
        steps: core.step,
        switches: core.switches,
        schedule_used: core.pos,
        budget_exceeded: core.abort,
        panics,
    }
}

type Job = Box<dyn FnOnce() + Send + 'static>;

thread_local! {
    /// persistent helper threads of this worker (spawning threads per execution makes 16
    /// workers contend on the process's memory-map lock)
    static POOL: std::cell::RefCell<Vec<std::sync::mpsc::Sender<Job>>> = const { std::cell::RefCell::new(Vec::new()) };
}

fn pool_submit(slot: usize, job: Job) {
    POOL.with(|p| {
        let mut p = p.borrow_mut();
        while p.len() <= slot {
            let (tx, rx) = std::sync::mpsc::channel::<Job>();
            std::thread::Builder::new()
                .name("managed".into())
                .spawn(move || {
                    while let Ok(job) = rx.recv() {
                        job();
                    }
                })
                .expect("spawn managed thread");
            p.push(tx);
        }
        p[slot].send(job).expect("managed thread alive");
    });
}

pub fn is_lookup(kind: StepKind) -> bool {
    matches!(kind, StepKind::MapGet | StepKind::MapRemove)
}

// ---------------------------------------------------------------------------------
// schedule generators

use proptest::prelude::*;

/// sparse (few preemptions), uniform, and k-preemption schedules
pub fn schedule(max_len: usize) -> BoxedStrategy<Vec<u8>> {
    let sparse = proptest::collection::vec(prop_oneof![3 => Just(0u8), 1 => 1u8..=6], 0..=max_len);
    let uniform = proptest::collection::vec(0u8..=6, 0..=max_len);
    let kpre = (proptest::collection::vec((0usize..max_len.max(1), 1u8..=6), 1..=3), 0usize..=max_len).prop_map(
        move |(cuts, len)| {
            let mut v = vec![0u8; len.max(cuts.iter().map(|c| c.0 + 1).max().unwrap_or(0))];
            for (i, c) in cuts {
                if i < v.len() {
                    v[i] = c;
                }
            }
            v
        },
    );
    prop_oneof![4 => sparse, 2 => uniform, 3 => kpre].boxed()
}
