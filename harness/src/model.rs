//! Reference rules, written from the property statements (C05) and the doc comment
//! on `OrderType::ReserveOrder` as one uniform "consume, then decide" rule —
//! deliberately not a transcription of `match_against`'s per-variant branches.

use crate::spec::{with_quantities, Kind};
use pricelevel::{OrderType, DEFAULT_RESERVE_REPLENISH_AMOUNT};

pub type Order = OrderType<()>;

#[derive(Clone, Debug, PartialEq)]
pub struct RefOutcome {
    pub consumed: u64,
    /// order that keeps resting (None: it leaves the book)
    pub next: Option<Order>,
    /// quantity moved from hidden to displayed by this step
    pub hidden_moved: u64,
    /// what is left of the incoming quantity
    pub remaining: u64,
}

pub fn reserve_params(o: &Order) -> Option<(u64, Option<u64>, bool)> {
    match o {
        OrderType::ReserveOrder {
            replenish_threshold,
            replenish_amount,
            auto_replenish,
            ..
        } => Some((*replenish_threshold, *replenish_amount, *auto_replenish)),
        _ => None,
    }
}

/// The canonical reference step: what happens when `q` arrives at `o`.
/// For icebergs the canonical tranche is min(exhausted display, hidden); other
/// admissible tranches are handled by [`check_step`].
pub fn ref_match(o: &Order, q: u64) -> RefOutcome {
    let d = o.visible_quantity();
    let h = o.hidden_quantity();
    let consumed = q.min(d);
    let remaining = q - consumed;
    let d2 = d - consumed;
    let kind = Kind::of(o);
    match kind {
        Kind::Iceberg => {
            if d2 > 0 {
                RefOutcome {
                    consumed,
                    next: Some(with_quantities(o, d2, h)),
                    hidden_moved: 0,
                    remaining,
                }
            } else if h == 0 {
                RefOutcome {
                    consumed,
                    next: None,
                    hidden_moved: 0,
                    remaining,
                }
            } else {
                let t = d.min(h);
                RefOutcome {
                    consumed,
                    next: Some(with_quantities(o, t, h - t)),
                    hidden_moved: t,
                    remaining,
                }
            }
        }
        Kind::Reserve => {
            let (thr, amount, auto) = reserve_params(o).unwrap();
            let a = amount.unwrap_or(DEFAULT_RESERVE_REPLENISH_AMOUNT);
            let r = a.min(h);
            let thr = thr.max(1);
            if d2 == 0 {
                if auto && h > 0 {
                    RefOutcome {
                        consumed,
                        next: Some(with_quantities(o, r, h - r)),
                        hidden_moved: r,
                        remaining,
                    }
                } else {
                    RefOutcome {
                        consumed,
                        next: None,
                        hidden_moved: 0,
                        remaining,
                    }
                }
            } else if auto && h > 0 && d2 < thr {
                RefOutcome {
                    consumed,
                    next: Some(with_quantities(o, d2 + r, h - r)),
                    hidden_moved: r,
                    remaining,
                }
            } else {
                RefOutcome {
                    consumed,
                    next: Some(with_quantities(o, d2, h)),
                    hidden_moved: 0,
                    remaining,
                }
            }
        }
        _ => {
            if d2 == 0 {
                RefOutcome {
                    consumed,
                    next: None,
                    hidden_moved: 0,
                    remaining,
                }
            } else {
                RefOutcome {
                    consumed,
                    next: Some(with_quantities(o, d2, 0)),
                    hidden_moved: 0,
                    remaining,
                }
            }
        }
    }
}

/// Field-for-field check of one observed matching step against the reference,
/// accepting every iceberg tranche the statement allows ("no larger than the
/// exhausted one, taken from hidden quantity").
pub fn check_step(
    o: &Order,
    q: u64,
    consumed: u64,
    next: &Option<Order>,
    hidden_moved: u64,
    remaining: u64,
) -> Result<(), String> {
    let r = ref_match(o, q);
    if consumed != r.consumed {
        return Err(format!(
            "consumed {} but min(incoming {}, displayed {}) = {}",
            consumed,
            q,
            o.visible_quantity(),
            r.consumed
        ));
    }
    if remaining != r.remaining {
        return Err(format!(
            "remaining {} but incoming {} - consumed {} = {}",
            remaining, q, consumed, r.remaining
        ));
    }
    let d = o.visible_quantity();
    let h = o.hidden_quantity();
    let iceberg_refresh = Kind::of(o) == Kind::Iceberg && d - consumed == 0 && h > 0;
    if iceberg_refresh {
        // any tranche t with t <= min(d, h), t >= 1 when d >= 1, t + new_hidden == h
        let n = match next {
            Some(n) => n,
            None => {
                return Err("iceberg with hidden quantity left the book on display exhaustion".into())
            }
        };
        let t = n.visible_quantity();
        let nh = n.hidden_quantity();
        if t > d.min(h) {
            return Err(format!(
                "iceberg tranche {} larger than the exhausted display {} / hidden {}",
                t, d, h
            ));
        }
        if d >= 1 && t == 0 {
            return Err("iceberg with hidden quantity shows an empty tranche".into());
        }
        if t.checked_add(nh) != Some(h) {
            return Err(format!(
                "iceberg tranche {} + new hidden {} != hidden before {}",
                t, nh, h
            ));
        }
        if hidden_moved != t {
            return Err(format!(
                "hidden_moved {} does not equal the new tranche {}",
                hidden_moved, t
            ));
        }
        if with_quantities(o, t, nh) != *n {
            return Err(format!(
                "identity fields changed: before {:?} after {:?}",
                o, n
            ));
        }
        return Ok(());
    }
    if hidden_moved != r.hidden_moved {
        return Err(format!(
            "hidden moved {} expected {}",
            hidden_moved, r.hidden_moved
        ));
    }
    if *next != r.next {
        return Err(format!(
            "resulting order {:?} expected {:?}",
            next, r.next
        ));
    }
    Ok(())
}

/// Result of amending the displayed quantity at the same price, per C07:
/// Standard / PostOnly / Iceberg get the new displayed quantity (hidden unchanged);
/// for the other four types the statement leaves it open (`None` = either the old
/// or the new display is acceptable, nothing else may change).
pub fn amend_exact(o: &Order, new_q: u64) -> Option<Order> {
    match Kind::of(o) {
        Kind::Standard | Kind::PostOnly | Kind::Iceberg => {
            Some(with_quantities(o, new_q, o.hidden_quantity()))
        }
        _ => None,
    }
}

/// Is `got` an acceptable result of amending `o` to displayed quantity `new_q`?
pub fn amend_ok(o: &Order, new_q: u64, got: &Order) -> bool {
    match amend_exact(o, new_q) {
        Some(e) => e == *got,
        None => *got == *o || *got == with_quantities(o, new_q, o.hidden_quantity()),
    }
}

/// A "silent" visit: the matcher reaches an order whose display is 0 with a positive
/// incoming quantity; nothing trades. Returns the state after the visit
/// (Some(same) = stays as it is, Some(other) = replenished, None = leaves).
pub fn silent_visit(o: &Order) -> Option<Order> {
    debug_assert_eq!(o.visible_quantity(), 0);
    ref_match(o, 1).next
}

/// Upper estimate of how many times a sweep of size `s` can visit `o`
/// (canonical tranche sizes), used for the termination budget and the size clamp.
pub fn rounds_estimate(o: &Order, s: u64) -> u64 {
    let d = o.visible_quantity();
    let h = o.hidden_quantity();
    let take = s.min(d.saturating_add(h));
    match Kind::of(o) {
        Kind::Iceberg => {
            if h == 0 || d == 0 {
                2 // (an iceberg showing nothing cannot trade or refresh: one visit)
            } else {
                let t = d.min(h).max(1);
                (take / t).saturating_add(2)
            }
        }
        Kind::Reserve => {
            let (thr, amount, auto) = reserve_params(o).unwrap();
            if !auto || h == 0 {
                2
            } else {
                let a = amount.unwrap_or(DEFAULT_RESERVE_REPLENISH_AMOUNT).min(h);
                if a == 0 {
                    3
                } else {
                    // threshold replenishment tops the display up, so a visit consumes at
                    // least min(a, display) ... be generous
                    let _ = thr;
                    (take / a).saturating_mul(2).saturating_add(3)
                }
            }
        }
        _ => 2,
    }
}
