//! Byte-level decoders for the libFuzzer targets in /verif/fuzz (the oracles live here so that
//! `plv <Cxx> --replay` can re-execute a saved fuzzer artifact without the fuzzer).

use crate::checks::c09;
use crate::checks::c18;
use crate::checks::codec::BookSpec;
use crate::gen::Profile;
use crate::runner::{catch, Stats};
use crate::seq::*;
use crate::spec::*;

/// tiny cursor over the fuzzer's bytes (exhausted input yields zeros)
pub struct Cur<'a> {
    d: &'a [u8],
    i: usize,
}

impl<'a> Cur<'a> {
    pub fn new(d: &'a [u8]) -> Self {
        Cur { d, i: 0 }
    }
    pub fn u8(&mut self) -> u8 {
        let v = self.d.get(self.i).copied().unwrap_or(0);
        self.i += 1;
        v
    }
    pub fn u16(&mut self) -> u16 {
        (self.u8() as u16) << 8 | self.u8() as u16
    }
    pub fn done(&self) -> bool {
        self.i >= self.d.len()
    }
    pub fn below(&mut self, n: u8) -> u8 {
        if n == 0 {
            0
        } else {
            self.u8() % n
        }
    }
}

const QTY: [u64; 16] = [0, 1, 2, 3, 4, 5, 6, 7, 8, 10, 12, 20, 79, 80, 81, 200];

fn order_spec(c: &mut Cur, zeros: bool) -> OrderSpec {
    let kind = ALL_KINDS[c.below(7) as usize];
    let mut display = QTY[c.below(16) as usize];
    if !zeros && display == 0 {
        display = 1;
    }
    let hidden = if kind.has_hidden() { QTY[c.below(16) as usize] } else { 0 };
    let flags = c.u8();
    OrderSpec {
        kind,
        display,
        hidden,
        buy: flags & 1 == 1,
        tif: match (flags >> 1) % 6 {
            0 => Tif::Gtc,
            1 => Tif::Ioc,
            2 => Tif::Fok,
            3 => Tif::Day,
            4 => Tif::Gtd(u64::MAX),
            _ => Tif::Gtd(1_700_000_000_000),
        },
        ts: (c.u8() % 8) as u64,
        threshold: [0u64, 1, 2, 3, 5, 50, u64::MAX, 9][c.below(8) as usize],
        amount: [None, Some(0u64), Some(1), Some(2), Some(3), Some(5), Some(80), Some(u64::MAX)][c.below(8) as usize],
        auto: flags & 0x80 == 0,
        trail: 3,
        lastref: 99,
        offset: if flags & 0x40 != 0 { i64::MIN } else { -5 },
        peg: flags >> 4,
        own_price: None,
    }
}

/// bytes -> operation history (small profile, zero quantities allowed, <= 64 ops)
pub fn decode_history(data: &[u8]) -> History {
    let mut c = Cur::new(data);
    let head = c.u8();
    let ts_mode = if head & 1 == 0 { TsMode::Increasing } else { TsMode::AsGiven };
    let price = (c.u8() as u64) * 37;
    let pool: Vec<IdSpec> = (0..6)
        .map(|i| if i % 2 == 0 { IdSpec::FromU64(i + 1) } else { IdSpec::Ulid(i as u128 + 1) })
        .collect();
    let mut ops = Vec::new();
    while !c.done() && ops.len() < 64 {
        let k = c.u8();
        let target = |c: &mut Cur| {
            let t = c.u16();
            if t & 1 == 0 {
                Target::Resting(t)
            } else {
                Target::Pool(t)
            }
        };
        let op = match k % 16 {
            0..=4 => Op::Add { slot: c.u16(), spec: order_spec(&mut c, true) },
            5..=8 => Op::Match {
                size: match c.below(8) {
                    0 => MatchSize::AllPlus1,
                    1 => MatchSize::Huge,
                    2 => MatchSize::Zero,
                    3 => MatchSize::FirstK(1 + c.below(4)),
                    _ => MatchSize::Exact(QTY[c.below(16) as usize].max(1)),
                },
            },
            9 => Op::Cancel { target: target(&mut c) },
            10 => Op::UpdatePrice { target: target(&mut c), same: c.u8() & 1 == 1 },
            11 | 12 => Op::UpdateQty { target: target(&mut c), qty: QTY[c.below(16) as usize] },
            13 => Op::UpdatePQ { target: target(&mut c), same: c.u8() & 1 == 1, qty: QTY[c.below(16) as usize] },
            14 => Op::Replace { target: target(&mut c), same: c.u8() & 1 == 1, qty: QTY[c.below(16) as usize], buy: false },
            _ => {
                if c.u8() & 1 == 0 {
                    Op::Read(ALL_READS[c.below(9) as usize])
                } else {
                    Op::Rebuild(ALL_REBUILDS[c.below(7) as usize])
                }
            }
        };
        ops.push(op);
    }
    History { zeros: true, price, profile: Profile::Small, ts_mode, pool, ops, ghost: None, hold: head & 2 != 0, gen_start: if head & 4 != 0 { u64::MAX - 3 } else { 0 }, wrap_ok: false, max_rounds: 0, read_every: if head & 8 != 0 { Some(crate::seq::ALL_READS[(head >> 4) as usize % 9]) } else { None } }
}

fn oracle_filter() -> Vec<Oracle> {
    match std::env::var("PLV_ORACLE").unwrap_or_default().as_str() {
        "Agg" | "C01" => vec![Oracle::Agg, Oracle::Panic],
        "Account" | "C02" => vec![Oracle::Account, Oracle::Panic],
        "Term" | "C06" => vec![Oracle::Term, Oracle::Panic],
        "Update" | "C07" => vec![Oracle::Update, Oracle::Panic],
        _ => vec![Oracle::Agg, Oracle::Account, Oracle::Term, Oracle::Panic],
    }
}

pub fn history_case(data: &[u8]) -> Result<(), String> {
    let h = decode_history(data);
    let wanted = oracle_filter();
    let (it, _) = run_history(&h, false, false);
    match it.violations.iter().find(|v| wanted.contains(&v.oracle)) {
        Some(v) => Err(format!("{:?} at step {}: {}", v.oracle, v.step, v.msg)),
        None => Ok(()),
    }
}

pub fn parse_case(data: &[u8]) -> Result<(), String> {
    if data.is_empty() {
        return Ok(());
    }
    thread_local! {
        static EPS: Vec<c18::EntryPoint> = c18::entry_points();
    }
    let text = match std::str::from_utf8(&data[1..]) {
        Ok(t) => t,
        Err(_) => return Ok(()),
    };
    EPS.with(|eps| {
        let ep = &eps[data[0] as usize % eps.len()];
        match catch(|| (ep.parse)(text)) {
            Ok(_) => Ok(()),
            Err(m) => Err(format!("{}({:?}) panicked: {}", ep.name, text, m)),
        }
    })
}

/// which entry point and text a parse_any input denotes (for converting artifacts)
pub fn parse_case_parts(data: &[u8]) -> Option<(String, String)> {
    if data.is_empty() {
        return None;
    }
    let eps = c18::entry_points();
    let text = std::str::from_utf8(&data[1..]).ok()?;
    Some((eps[data[0] as usize % eps.len()].name.to_string(), text.to_string()))
}

pub fn tamper_case(data: &[u8]) -> Result<(), String> {
    let mut c = Cur::new(data);
    let n = c.below(4) as usize;
    let price = if c.u8() & 1 == 0 { 1 } else { 100 };
    let mut orders = Vec::new();
    for i in 0..n {
        let id = if i % 2 == 0 { IdSpec::FromU64(i as u64 + 1) } else { IdSpec::Ulid(i as u128 + 7) };
        orders.push((id, order_spec(&mut c, true)));
    }
    let book = BookSpec { price, orders };
    let level = book.build_level();
    let original = level.snapshot_to_json().map_err(|e| format!("snapshot_to_json failed: {e}"))?;
    let original_value: serde_json::Value = serde_json::from_str(&original).map_err(|e| e.to_string())?;
    let mut j = c09::Judge {
        original: original.clone(),
        original_value,
        content: crate::checks::codec::level_content(&level),
        restores: 0,
        accepted_identical: 0,
        rejected: 0,
        changed_semantics: 0,
    };
    // the rest of the input is a list of byte-level faults applied cumulatively
    let mut text = original.clone().into_bytes();
    let mut k = 0;
    while !c.done() && k < 6 {
        let kind = c.below(4);
        let pos = c.u16() as usize;
        let b = c.u8();
        if text.is_empty() {
            break;
        }
        match kind {
            0 => {
                let i = pos % text.len();
                text[i] = b;
            }
            1 => {
                let i = pos % text.len();
                text.remove(i);
            }
            2 => {
                let i = pos % (text.len() + 1);
                text.insert(i, b);
            }
            _ => {
                let i = pos % (text.len() + 1);
                text.truncate(i);
            }
        }
        k += 1;
        let snapshot = text.clone();
        c09::judge(&mut j, &snapshot, &|| format!("fuzzer fault list ({k} faults)"))?;
    }
    Ok(())
}

/// replay a saved fuzzer input: {"engine":"fuzz_bytes","target":..., "hex":...}
pub fn replay_bytes(target: &str, hex: &str) -> Result<(), String> {
    let data: Vec<u8> = (0..hex.len() / 2).filter_map(|i| u8::from_str_radix(&hex[2 * i..2 * i + 2], 16).ok()).collect();
    let _ = Stats::default();
    match target {
        "parse_any" => parse_case(&data),
        "snapshot_tamper" => tamper_case(&data),
        "history" => history_case(&data),
        _ => Err(format!("unknown fuzz target {target}")),
    }
}
