//! History-based checks (engine E1): C01, C02, C04, C06, C07 and the sequential half of C15.
//! One interpreter, all oracles on; each property reports only the oracles it is about.

use crate::runner::*;
use crate::seq::*;
use serde_json::json;

pub struct HistCheck {
    pub id: &'static str,
    pub oracles: &'static [Oracle],
    pub cfg: fn(Tier) -> HistCfg,
    pub nontrivial: fn(&Facts) -> bool,
    pub rule: &'static str,
    pub quick: u64,
    pub thorough: u64,
    /// metamorphic twin run without the Read operations (C07)
    pub twin_without_reads: bool,
    pub assumptions: &'static [&'static str],
}

/// C07's generator: a history plus a ghost insertion point
fn with_ghost(hcfg: HistCfg) -> proptest::strategy::BoxedStrategy<History> {
    use proptest::prelude::*;
    let ocfg = crate::gen::OrderGenCfg::all_types(crate::gen::Profile::Small, true);
    let pairs = prop_oneof![3 => Just(0u32), 1 => crate::gen::size_class(hcfg.churn_pow)];
    (history(hcfg), any::<u16>(), crate::gen::order_spec(ocfg), 0u8..4, pairs)
        .prop_map(|(mut h, at, spec, via, pairs)| {
            h.ghost = Some(Ghost { at, spec, via, pairs });
            h
        })
        .boxed()
}

fn general(t: Tier) -> HistCfg {
    let mut c = HistCfg::general(t.pick(40, 120));
    // bulk sizes: up to 2^14 add+cancel pairs / 2^10 resting orders in the quick tier, 2^17 / 2^13
    // in the thorough tier
    c.churn_pow = t.pick(14, 17);
    c.burst_pow = t.pick(10, 13);
    c
}

fn no_rebuild(t: Tier) -> HistCfg {
    let mut c = general(t);
    c.w_rebuild = 0;
    c
}

fn c06_cfg(t: Tier) -> HistCfg {
    let mut c = general(t);
    c.w_rebuild = 1;
    c.w_upd_qty = 16; // amend-to-0 is the two-call route to a display-0 order
    c.kind_weights = [2, 6, 1, 1, 1, 1, 7];
    c
}

fn c07_cfg(t: Tier) -> HistCfg {
    let mut c = general(t);
    c.w_rebuild = 0;
    c.w_cancel = 8;
    c.w_upd_price = 8;
    c.w_upd_qty = 10;
    c.w_upd_pq = 8;
    c.w_replace = 8;
    c.w_read = 12;
    c
}

fn c04_cfg(t: Tier) -> HistCfg {
    let mut c = general(t);
    c.zeros = false;
    c.zeros_share = 3;
    c.boundary_share = 1;
    c.w_rebuild = 0;
    c.w_read = 0;
    c.w_upd_price = 2;
    c.w_upd_pq = 3;
    c.w_replace = 3;
    c.w_upd_qty = 10;
    c.w_cancel = 10;
    c.w_add = 34;
    c.w_match = 28;
    c.final_drain = true;
    c.wrap_ok = true;
    c.boundary_share = 2;
    c
}

fn c15_cfg(t: Tier) -> HistCfg {
    let mut c = general(t);
    c.zeros = false;
    c.w_rebuild = 0;
    c.w_cancel = 10;
    c
}

pub const C01: HistCheck = HistCheck {
    id: "C01",
    oracles: &[Oracle::Agg, Oracle::Panic],
    cfg: general,
    nontrivial: |f| (f.partial_fills + f.replenishments) >= 1 && f.op_on_touched_order_or_second_match(),
    rule: "stateful histories (add / match / cancel / price move / quantity amend / price+quantity / replace / read / rebuild through 7 paths; all 7 order types; small and 64-bit-boundary quantity profiles incl. 0) interpreted on a real PriceLevel; after EVERY operation visible/hidden/count/total and the snapshot's figures are compared with the sums over iter_orders() and bounded by everything ever supplied. The histories also contain bulk operations (n add+cancel pairs / n resting orders under fresh ids, n up to ~1030), pairs of amendments moving quantity between two orders, matches whose taker id is a pool id, generators restored at boundary counters, and in half of the runs every Arc the API returns is kept alive. Snapshot figures are checked at snapshot-type reads and at the end of each history. Since rounds 4-5: one order in eight carries a price field different from the level's; every fourth worker runs under a log subscriber that evaluates every tracing event; operations on a sibling level (same price, same ids) are interleaved; read-only calls include Debug formatting and JSON serialization into a writer that fails part-way; Transfer / Revive operations and match sizes ending exactly after the k-th fill of a sweep; statistics are read alternately through a handle taken at creation and a fresh one. Since round 6: what every content-bearing read-only call returns (snapshot, package, snapshot JSON, text, serde JSON, level data) is decoded again and must equal the live level; one history in seven makes one fixed read-only call after every operation. The same call sequences are replayed on the library built WITHOUT the verif feature and must give identical results and aggregates (counted under unhooked_build_replay). Non-trivial = the history has a match that partially fills or replenishes an order and a later operation (amend, cancel, move, another match, rebuild) on that same order; distinct = 64-bit hash of the history.",
    quick: 200_000,
    thorough: 6_000_000,
    twin_without_reads: false,
    assumptions: &["order.price == level price; ids unique among resting orders; sums fit in u64 (DESIGN §8)"],
};

pub const C02: HistCheck = HistCheck {
    id: "C02",
    oracles: &[Oracle::Account, Oracle::Panic],
    cfg: no_rebuild,
    nontrivial: |f| f.sweep_multi || f.multi_round_same_order || f.second_match_on_partial,
    rule: "stateful histories as C01 without rebuilds (one transaction-id generator per history); every match result is audited: executed+remaining==requested, is_complete<=>remaining==0, every transaction has quantity>0, the level price, the taker id, a maker resting at that moment (trace-driven model), the opposite side, a never-seen transaction id; lifetime fills of an order <= what it supplied (adjusted by amendments); filled_order_ids == makers that traded and are no longer listed. Plus MatchResult built incrementally (second generator: initial quantity and up to 12 appended transactions summing within it: remaining == initial - sum, is_complete <=> remaining == 0, executed_quantity() == sum after every append). The histories also contain bulk operations (n add+cancel pairs / n resting orders under fresh ids, n up to ~1030), pairs of amendments moving quantity between two orders, matches whose taker id is a pool id, generators restored at boundary counters, and in half of the runs every Arc the API returns is kept alive. Since rounds 4-5: one order in eight carries a price field different from the level's; every fourth worker runs under a log subscriber that evaluates every tracing event; operations on a sibling level (same price, same ids) are interleaved; read-only calls include Debug formatting and JSON serialization into a writer that fails part-way; Transfer / Revive operations and match sizes ending exactly after the k-th fill of a sweep; statistics are read alternately through a handle taken at creation and a fresh one. Since round 6: what every content-bearing read-only call returns (snapshot, package, snapshot JSON, text, serde JSON, level data) is decoded again and must equal the live level; one history in seven makes one fixed read-only call after every operation. Appended transaction sequences include exact repetitions of the previous transaction. Call sequences are also replayed on the unhooked build (unhooked_build_replay). Non-trivial = a match that trades >=2 orders or the same order in >=2 rounds, or a second match on a previously partially filled order.",
    quick: 200_000,
    thorough: 6_000_000,
    twin_without_reads: false,
    assumptions: &["the model follows the observed makers, so queue-order deviations (C04) do not affect this check"],
};

pub const C04: HistCheck = HistCheck {
    id: "C04",
    oracles: &[Oracle::Priority, Oracle::Panic],
    cfg: c04_cfg,
    nontrivial: |f| f.match_with_3_resting && f.matches >= 2 && f.match_after_event,
    rule: "stateful histories of adds, matches of all size kinds, cancels, re-adds of earlier ids, same-price amendments (positive quantities, all 7 types; bulk add+cancel churn up to ~1030 pairs; in the boundary profile sums may exceed 64 bits since this oracle never reads the aggregates) ending in a draining match; ideal arrival ranks: fresh rank on add and on replenishment from hidden, kept on partial fill and same-price amend; at every transaction no other resting order with displayed quantity may have a smaller rank than the maker. Pairs explained by the listed known findings (KF-C04-1 waiting order was re-queued at the tail by an earlier match; KF-C04-2 the maker's id has a stale/duplicate ticket) are counted, everything else is a violation. Since rounds 4-5: one order in eight carries a price field different from the level's; every fourth worker runs under a log subscriber that evaluates every tracing event; operations on a sibling level (same price, same ids) are interleaved; read-only calls include Debug formatting and JSON serialization into a writer that fails part-way; Transfer / Revive operations and match sizes ending exactly after the k-th fill of a sweep; statistics are read alternately through a handle taken at creation and a fresh one. Three in ten histories also contain orders that show nothing (display 0, skipped or silently replenished by a match). The level's documented ticket queue is tracked exactly and every match is predicted from it: a deviation from arrival order counts as a known finding only if the makers and quantities of that match are exactly those the ticket queue yields (counters ticket_queue/*); the moment of a silent replenishment and the set of set-aside orders are taken from the same prediction. Non-trivial = >=3 orders resting at some match, >=2 matches, one of them after a replenishment, an amendment or a re-add.",
    quick: 200_000,
    thorough: 6_000_000,
    twin_without_reads: false,
    assumptions: &["known-finding attribution is by monotone flags (DESIGN §C04 limitation)"],
};

/// exploration aid (not a registered check): C04's oracle on the general history mix
pub const C04X: HistCheck = HistCheck {
    id: "C04X",
    oracles: &[Oracle::Priority],
    cfg: general,
    nontrivial: |f| f.matches >= 2,
    rule: "exploration aid",
    quick: 60_000,
    thorough: 600_000,
    twin_without_reads: false,
    assumptions: &[],
};

pub const C06: HistCheck = HistCheck {
    id: "C06",
    oracles: &[Oracle::Term, Oracle::Panic],
    cfg: c06_cfg,
    nontrivial: |f| f.zero_display_at_match || f.three_round_match,
    rule: "stateful histories with zero quantities allowed (zero-quantity adds, amend-to-0, reserve replenish amount 0, bursts of up to 80 such orders, churn leaving up to ~1030 dead tickets), iceberg/reserve-heavy; every match_order runs under a budget of shared-memory steps derived from the number of resting orders, tickets and replenishment rounds a correct sweep needs (exceeding it = non-termination, detected without wall clock); after each match executed >= min(requested, displayed before) and remaining>0 implies no listed order displays quantity. Since rounds 4-5: one order in eight carries a price field different from the level's; every fourth worker runs under a log subscriber that evaluates every tracing event; operations on a sibling level (same price, same ids) are interleaved; read-only calls include Debug formatting and JSON serialization into a writer that fails part-way; Transfer / Revive operations and match sizes ending exactly after the k-th fill of a sweep; statistics are read alternately through a handle taken at creation and a fresh one. Since round 6: what every content-bearing read-only call returns (snapshot, package, snapshot JSON, text, serde JSON, level data) is decoded again and must equal the live level; one history in seven makes one fixed read-only call after every operation. Call sequences are also replayed on the library built WITHOUT the verif feature, where every call must return (wall-clock patience 120 s, confirmed in a fresh process with 300 s) and give identical results (unhooked_build_replay). Non-trivial = a match issued while an order with display 0 and hidden>0 rests, or a match with >=3 replenishments.",
    quick: 200_000,
    thorough: 6_000_000,
    twin_without_reads: false,
    assumptions: &["match sizes are clamped so that a correct sweep needs <= ~120 replenishment rounds (DESIGN §C06)"],
};

pub const C07: HistCheck = HistCheck {
    id: "C07",
    oracles: &[Oracle::Update, Oracle::Panic],
    cfg: c07_cfg,
    nontrivial: |f| f.update_on_touched_order,
    rule: "stateful histories mixing all five update kinds (present/absent ids, same/other price) with adds, matches and read-only calls; cancel/move must return the model's current order field for field and remove only it; absent id => Ok(None) and identical fingerprint; same-price UpdatePrice => Err and identical fingerprint; same-price amend returns the order now listed (new display for Standard/PostOnly/Iceberg, either for the other four), others untouched; every read-only call leaves the fingerprint (price, aggregates, listing, statistics) unchanged; metamorphic twins, the first and third as *blind* replays of the recorded calls on fresh levels (no observation by the harness between calls): (1) all reads deleted => identical results for every other operation; (3) all reads but the last deleted => the last read returns the same content; (2) the same history with an extra order added and removed again right away (cancel / move / price+quantity / replace to another price) at a generated point must give identical results for every other operation and the same final listing. Since rounds 4-5: one order in eight carries a price field different from the level's; every fourth worker runs under a log subscriber that evaluates every tracing event; operations on a sibling level (same price, same ids) are interleaved; read-only calls include Debug formatting and JSON serialization into a writer that fails part-way; Transfer / Revive operations and match sizes ending exactly after the k-th fill of a sweep; statistics are read alternately through a handle taken at creation and a fresh one. Since round 6: what every content-bearing read-only call returns (snapshot, package, snapshot JSON, text, serde JSON, level data) is decoded again and must equal the live level; one history in seven makes one fixed read-only call after every operation. Price moves are also aimed at an order's own price when it differs from the level's. Call sequences are also replayed on the unhooked build (unhooked_build_replay). Non-trivial = an update applied to an order after a partial fill or replenishment.",
    quick: 160_000,
    thorough: 4_000_000,
    twin_without_reads: true,
    assumptions: &["for TrailingStop/Pegged/MarketToLimit/Reserve a same-price amend may keep or change the display (statement leaves it open; existing tests pin the no-op)"],
};

pub const C15: HistCheck = HistCheck {
    id: "C15",
    oracles: &[Oracle::Stats, Oracle::Panic],
    cfg: c15_cfg,
    nontrivial: |f| f.sweep_multi && f.removals >= 1,
    rule: "sequential half: stateful histories on a fresh level (positive quantities, no rebuild); after every operation orders_added == adds, orders_removed == successful cancels+moves, quantity_executed == sum of transaction quantities, value_executed == that x level price. Concurrent half: thread programs under the deterministic scheduler (see sched engine). Non-trivial (sequential) = a match trading several orders plus at least one removal. Since rounds 4-5: one order in eight carries a price field different from the level's; every fourth worker runs under a log subscriber that evaluates every tracing event; operations on a sibling level (same price, same ids) are interleaved; read-only calls include Debug formatting and JSON serialization into a writer that fails part-way; Transfer / Revive operations and match sizes ending exactly after the k-th fill of a sweep; statistics are read alternately through a handle taken at creation and a fresh one. Since round 6: what every content-bearing read-only call returns (snapshot, package, snapshot JSON, text, serde JSON, level data) is decoded again and must equal the live level; one history in seven makes one fixed read-only call after every operation. Order timestamps include 2^63 and other 64-bit boundaries offset by wall-clock-sized amounts; under the scheduler the figures are read through a handle taken before the program ran and through a fresh one.",
    quick: 160_000,
    thorough: 5_000_000,
    twin_without_reads: false,
    assumptions: &["order.price == level price (DESIGN §8)"],
};

impl Facts {
    pub fn op_on_touched_order_or_second_match(&self) -> bool {
        self.op_on_touched_order || self.second_match_on_partial || (self.rebuild_with_touched)
    }
}

fn record_facts(st: &mut Stats, f: &Facts, h: &History) {
    st.add("ops", h.ops.len() as u64);
    st.add("adds", f.adds);
    st.add("matches", f.matches);
    st.add("transactions", f.txs);
    st.add("partial_fills", f.partial_fills);
    st.add("replenishments", f.replenishments);
    st.add("removals", f.removals);
    st.add("amends", f.amends);
    st.add("readds", f.readds);
    st.add("reads", f.reads);
    st.add("reads/made_after_every_operation", f.reads_after_every_op);
    st.add("reads/content_decoded_and_compared", f.read_contents_checked);
    st.add("rebuilds", f.rebuilds);
    st.add("silent_leaves", f.silent_leaves);
    st.add("silent_replenish", f.silent_replenish);
    st.add("set_aside_orders", f.set_aside_orders);
    st.add("clamped_matches", f.clamped_matches);
    st.add("remapped_adds", f.remapped_adds);
    st.add("tranche_ambiguous", f.tranche_ambiguous);
    st.add("c04/strict_pairs", f.strict_pairs);
    st.add("sibling_level_ops", f.sibling_ops);
    st.add("ticket_queue/matches_predicted_exactly", f.tq_predicted);
    st.add("ticket_queue/matches_not_predicted", f.tq_mismatch);
    if f.boundary {
        st.count("hist/boundary_profile");
    } else {
        st.count("hist/small_profile");
    }
    if f.zero_display_at_match {
        st.count("hist/zero_display_at_match");
    }
    if f.three_round_match {
        st.count("hist/three_round_match");
    }
    if f.sweep_multi {
        st.count("hist/sweep_multi");
    }
    if f.multi_round_same_order {
        st.count("hist/multi_round_same_order");
    }
    if f.second_match_on_partial {
        st.count("hist/second_match_on_partial");
    }
    if f.update_on_touched_order {
        st.count("hist/update_on_touched_order");
    }
    if f.rebuild_with_touched {
        st.count("hist/rebuild_with_touched");
    }
    for (i, k) in crate::spec::ALL_KINDS.iter().enumerate() {
        if f.kinds_seen[i] {
            st.count(&format!("kind/{}", k.name()));
        }
    }
    for _ in 0..f.kf_c04_1 {
        st.known_hit("KF-C04-1");
    }
    for _ in 0..f.kf_c04_2 {
        st.known_hit("KF-C04-2");
    }
}

/// Run one history for check `hc`; Err = violation of hc's property.
pub fn eval(hc: &HistCheck, h: &History, st: &mut Stats, excuse: (bool, bool)) -> Result<(), String> {
    let t0 = std::time::Instant::now();
    let (it, results) = run_history_with(h, false, false, excuse);
    if std::env::var_os("VERIF_SLOW").is_some() && t0.elapsed().as_millis() > 100 {
        let big: Vec<String> = h.ops.iter().filter_map(|o| match o {
            Op::Churn { n, .. } => Some(format!("Churn{n}")),
            Op::Burst { n, .. } => Some(format!("Burst{n}")),
            Op::AmendChurn { n, .. } => Some(format!("AmendChurn{n}")),
            _ => None,
        }).collect();
        eprintln!("slow history {} ms: ops={} max_rounds={} bulk={:?} txs={} resting_end={}", t0.elapsed().as_millis(), h.ops.len(), h.max_rounds, big, it.facts.txs, it.model.len());
    }
    record_facts(st, &it.facts, h);
    if (hc.nontrivial)(&it.facts) {
        if st.nontrivial(hash_of(h)) && st.want_sample() {
            st.sample(describe(h));
        }
    }
    if let Some(v) = it.violations.iter().find(|v| hc.oracles.contains(&v.oracle)) {
        return Err(format!("step {}: {}", v.step, v.msg));
    }
    for v in &it.violations {
        st.count(&format!("other_oracle_hits_ignored_here/{:?}", v.oracle));
    }
    // C07 twin 2: an order added and removed again right away leaves no trace
    if hc.twin_without_reads && h.profile == crate::gen::Profile::Small && !it.dead {
        if let Some(g) = h.ghost {
            let at = crate::gen::pick(g.at, h.ops.len() + 1);
            let mut h2 = h.clone();
            if g.pairs == 0 {
                h2.ops.insert(at, Op::GhostRemove { via: g.via });
                h2.ops.insert(at, Op::GhostAdd { spec: g.spec });
            } else {
                let mut sp = g.spec;
                sp.display = sp.display.max(1);
                h2.ops.insert(at, Op::Churn { n: g.pairs, spec: sp, ghost: true });
            }
            let (it3, results3) = run_history_with(&h2, false, false, excuse);
            st.count("ghost_twin_runs");
            let a: Vec<&OpResult> = results.iter().collect();
            // drop the inserted operation's own result (a Churn inserted at `at` yields one Bulk)
            let mut skip_bulk_at = if g.pairs > 0 { Some(at) } else { None };
            let b: Vec<&OpResult> = results3
                .iter()
                .enumerate()
                .filter(|(i, r)| {
                    if matches!(r, OpResult::Ghost) {
                        return false;
                    }
                    if skip_bulk_at == Some(*i) {
                        skip_bulk_at = None;
                        return false;
                    }
                    true
                })
                .map(|(_, r)| r)
                .collect();
            if !it3.dead && a != b {
                let i = a.iter().zip(b.iter()).position(|(x, y)| x != y).unwrap_or(a.len().min(b.len()));
                return Err(format!(
                    "adding extra order(s) and removing them again right away (before op #{}, via update kind {}) changes a later result (op #{}): without {:?}, with {:?}",
                    at + 1,
                    g.via % 4,
                    i + 1,
                    a.get(i),
                    b.get(i)
                ));
            }
            if !it3.dead {
                // as sets: the order of equal-timestamp orders in a listing is unspecified
                let mut fa: Vec<_> = it.level.iter_orders().iter().map(|o| **o).collect();
                let mut fb: Vec<_> = it3.level.iter_orders().iter().map(|o| **o).collect();
                fa.sort_by_key(|o| o.id().to_string());
                fb.sort_by_key(|o| o.id().to_string());
                if fa != fb {
                    return Err("adding an extra order and removing it again right away changes the final listing".into());
                }
            }
        }
    }
    // C07 twins 1 and 3 are *blind* replays of the concrete calls on fresh levels: no listing, no
    // aggregate reads, nothing but the calls themselves, so that the interpreter's own per-step
    // observations cannot mask (or cause) an effect of the read-only calls.
    if hc.twin_without_reads && !it.dead && it.concrete.iter().any(|c| matches!(c, Concrete::Read(_))) {
        let blind = |calls: &[&Concrete]| -> Vec<OpResult> {
            let level = pricelevel::PriceLevel::new(h.price);
            let gen = pricelevel::UuidGenerator::new(uuid::Uuid::from_u128(0x5eed));
            calls.iter().map(|c| apply_concrete(&level, &gen, c, 200_000_000)).collect()
        };
        let all: Vec<&Concrete> = it.concrete.iter().collect();
        let no_reads: Vec<&Concrete> = it.concrete.iter().filter(|c| !matches!(c, Concrete::Read(_))).collect();
        let last_read = it.concrete.iter().rposition(|c| matches!(c, Concrete::Read(_))).unwrap();
        let only_last: Vec<&Concrete> = it
            .concrete
            .iter()
            .enumerate()
            .filter(|(i, c)| *i == last_read || !matches!(c, Concrete::Read(_)))
            .map(|(_, c)| c)
            .collect();
        let r_all = blind(&all);
        let r_none = blind(&no_reads);
        let r_last = blind(&only_last);
        st.count("twin_runs");
        let a: Vec<&OpResult> = r_all.iter().filter(|r| !matches!(r, OpResult::ReadValue(_))).collect();
        let b: Vec<&OpResult> = r_none.iter().collect();
        if a != b {
            let i = a.iter().zip(b.iter()).position(|(x, y)| x != y).unwrap_or(a.len().min(b.len()));
            return Err(format!(
                "deleting the read-only calls changes the result of a later operation (non-read call #{}): with reads {:?}, without {:?}",
                i + 1,
                a.get(i),
                b.get(i)
            ));
        }
        // what the last read sees must not depend on earlier reads
        let va = r_all.iter().rev().find(|r| matches!(r, OpResult::ReadValue(_)));
        let vb = r_last.iter().rev().find(|r| matches!(r, OpResult::ReadValue(_)));
        if va != vb {
            return Err(format!(
                "what the last read-only call ({:?}) returns depends on earlier read-only calls: with them {:?}, without them {:?}",
                it.concrete[last_read], va, vb
            ));
        }
    }
    Ok(())
}

fn excuses(cfg: &RunCfg) -> (crate::known::KnownFile, (bool, bool)) {
    let known = crate::known::load(&cfg.root);
    let e = (known.listed("C04", "KF-C04-1"), known.listed("C04", "KF-C04-2"));
    (known, e)
}

// ---------------------------------------------------------------------------------
// C02, second generator: a MatchResult built incrementally

#[derive(Clone, Debug, PartialEq, Eq, Hash, serde::Serialize, serde::Deserialize)]
pub struct Incremental {
    pub taker: crate::spec::IdSpec,
    pub initial: u64,
    /// quantities of the appended transactions, as fractions of what is still remaining
    pub parts: Vec<(u16, u64)>,
    /// append the previous transaction once more, field for field (same id, same timestamp),
    /// instead of a new one (when its quantity still fits)
    #[serde(default)]
    pub repeat: Vec<bool>,
}

fn incremental() -> proptest::strategy::BoxedStrategy<Incremental> {
    use proptest::prelude::*;
    (
        crate::gen::id_spec(),
        prop_oneof![crate::gen::boundary_u64(), 0u64..500],
        proptest::collection::vec((any::<u16>(), crate::gen::boundary_u64()), 0..12),
        proptest::collection::vec(proptest::bool::weighted(0.25), 12),
    )
        .prop_map(|(taker, initial, parts, repeat)| Incremental { taker, initial, parts, repeat })
        .boxed()
}

pub fn eval_incremental(c: &Incremental, st: &mut Stats) -> Result<(), String> {
    use pricelevel::{MatchResult, OrderId, Side, Transaction};
    let taker = c.taker.build();
    let mut m = MatchResult::new(taker, c.initial);
    if m.remaining_quantity != c.initial || m.executed_quantity() != 0 || !m.transactions.is_empty() {
        return Err(format!("MatchResult::new({}) starts with remaining {} executed {}", c.initial, m.remaining_quantity, m.executed_quantity()));
    }
    let mut sum: u64 = 0;
    let mut prev: Option<Transaction> = None;
    let mut repeats = 0u32;
    for (k, (frac, price)) in c.parts.iter().enumerate() {
        let left = c.initial - sum;
        // sum of the appended quantities stays within the initial quantity (domain of the property)
        let q = if *frac == u16::MAX { left } else { ((left as u128 * *frac as u128) >> 16) as u64 };
        let mut t = Transaction::new(uuid::Uuid::from_u128(k as u128), taker, OrderId::from_u64(k as u64), *price, q, Side::Buy);
        if let (Some(p), Some(true)) = (prev, c.repeat.get(k)) {
            if p.quantity <= left {
                t = p;
                repeats += 1;
            }
        }
        let q = t.quantity;
        prev = Some(t);
        catch(|| m.add_transaction(t)).map_err(|e| format!("add_transaction panicked: {e}"))?;
        sum += q;
        if m.remaining_quantity != c.initial - sum {
            return Err(format!("after appending {} transactions summing to {} of {}: remaining_quantity = {}", k + 1, sum, c.initial, m.remaining_quantity));
        }
        if m.is_complete != (m.remaining_quantity == 0) {
            return Err(format!("is_complete = {} with remaining {}", m.is_complete, m.remaining_quantity));
        }
        if m.executed_quantity() != sum {
            return Err(format!("executed_quantity() = {} but the transactions sum to {}", m.executed_quantity(), sum));
        }
        if m.transactions.len() != k + 1 {
            return Err("transaction list length wrong".into());
        }
    }
    st.count("incremental/results");
    if repeats > 0 {
        st.count("incremental/with_an_exact_repeat_of_the_previous_transaction");
    }
    if c.parts.len() >= 2 && st.nontrivial(hash_of(c)) && st.want_sample() {
        st.sample(json!({"incremental_match_result": {"initial": c.initial, "appended": c.parts.len(), "sum": sum, "remaining": m.remaining_quantity, "is_complete": m.is_complete}}));
    }
    Ok(())
}

pub fn run(cfg: &RunCfg, hc: &'static HistCheck) -> Report {
    let mut rep = Report::new(hc.id, "exploration", hc.rule);
    rep.assumptions = hc.assumptions.iter().map(|s| s.to_string()).collect();
    let (known, excuse) = excuses(cfg);
    let hcfg = (hc.cfg)(cfg.tier);
    let n = cfg.cases(hc.quick, hc.thorough);
    rep.absorb(
        "history",
        explore(
            cfg,
            hc.id,
            n,
            move || if hc.twin_without_reads { with_ghost(hcfg) } else { history(hcfg) },
            |h: &History, st| eval(hc, h, st, excuse),
        ),
    );
    if hc.id == "C02" && !rep.failed() {
        // the lifetime bound also under concurrency (beyond the stated single-threaded quantifier)
        crate::checks::concur::run_into(cfg, &crate::checks::concur::C02C, &mut rep);
    }
    if hc.id == "C02" && !rep.failed() {
        let n2 = cfg.cases(300_000, 10_000_000);
        rep.absorb("incremental_match_result", explore(cfg, "C02-incr", n2, incremental, |c: &Incremental, st| eval_incremental(c, st)));
    }
    // known findings of this property: replay each listed witness; report those that still reproduce
    for f in known.for_property(hc.id) {
        let hits_in_witness = crate::known::read_witness(&cfg.root, f)
            .and_then(|v| load_case::<History>(&v).ok())
            .map(|h| {
                let (it, _) = run_history_with(&h, false, false, excuse);
                match f.id.as_str() {
                    "KF-C04-1" => it.facts.kf_c04_1,
                    "KF-C04-2" => it.facts.kf_c04_2,
                    _ => 0,
                }
            })
            .unwrap_or(0);
        if hits_in_witness > 0 {
            let total = rep.stats.known.get(&f.id).copied().unwrap_or(0);
            rep.known_lines.push((
                f.id.clone(),
                format!("{} [witness {} reproduces; {} matching pairs skipped in this run]", f.what, f.witness, total),
            ));
        }
    }
    rep
}

pub fn replay(cfg: &RunCfg, hc: &HistCheck, v: &serde_json::Value) -> Result<(), String> {
    if v["engine"] == "schedule" {
        return crate::checks::concur::replay(cfg, &crate::checks::concur::C02C, v);
    }
    if v["engine"] == "incremental_match_result" {
        let c: Incremental = load_case(v)?;
        return eval_incremental(&c, &mut Stats::default());
    }
    let h: History = load_case(v)?;
    let mut st = Stats::default();
    let (_, excuse) = excuses(cfg);
    let r = eval(hc, &h, &mut st, excuse);
    println!("{}", serde_json::to_string_pretty(&describe(&h)).unwrap());
    if !st.known.is_empty() {
        println!("known-finding signatures hit: {}", json!(st.known));
    }
    r
}

fn std_order(q: u64, ts: u64) -> crate::spec::OrderSpec {
    crate::spec::OrderSpec {
        kind: crate::spec::Kind::Standard,
        display: q,
        hidden: 0,
        buy: false,
        tif: crate::spec::Tif::Gtc,
        ts,
        threshold: 0,
        amount: None,
        auto: false,
        trail: 0,
        lastref: 0,
        offset: 0,
        peg: 0,
        own_price: None,
    }
}

/// Hand-written witness histories of the known findings (written to /verif/known/ by `plv witnesses`).
pub fn witnesses() -> Vec<(&'static str, &'static str, History)> {
    use crate::gen::Profile;
    use crate::spec::IdSpec;
    let pool = vec![IdSpec::FromU64(1), IdSpec::FromU64(2), IdSpec::FromU64(3)];
    let base = |ops: Vec<Op>| History {
        zeros: false,
        price: 100,
        profile: Profile::Small,
        ts_mode: TsMode::Increasing,
        pool: pool.clone(),
        ops,
        ghost: None,
        hold: false,
        gen_start: 0,
        wrap_ok: false,
        max_rounds: 0,
        read_every: None,
    };
    vec![
        (
            "KF-C04-1",
            "C04",
            base(vec![
                Op::Add { slot: 0, spec: std_order(10, 1) },
                Op::Add { slot: 30000, spec: std_order(10, 2) },
                Op::Match { size: MatchSize::Exact(4) },
                Op::Match { size: MatchSize::Exact(4) },
            ]),
        ),
        (
            "KF-C04-2",
            "C04",
            base(vec![
                Op::Add { slot: 0, spec: std_order(10, 1) },
                Op::Add { slot: 30000, spec: std_order(10, 2) },
                Op::Cancel { target: Target::Pool(0) },
                Op::Add { slot: 0, spec: std_order(10, 3) },
                Op::Match { size: MatchSize::Exact(5) },
            ]),
        ),
    ]
}

// ---------------------------------------------------------------------------------
// Export for the replay on the unhooked build (/verif/plain): every check above runs against the
// library built with the `verif` feature (instrumented atomics / map / queue). The instrumented
// map hands out owned entries and takes no shard locks, so behaviour that depends on the real
// containers (a map guard held across another map operation, for instance) is invisible there.
// Generated histories are therefore also replayed, call by call, on the library built WITHOUT
// the feature; every result and the aggregates after every call must be identical, and every
// call must return.

pub fn export_plain(hc: &HistCheck, tier: Tier, seed: u64, n: usize) -> serde_json::Value {
    use proptest::strategy::{Strategy, ValueTree};
    use proptest::test_runner::{Config, RngSeed, TestRunner};
    let mut config = Config::default();
    config.rng_seed = RngSeed::Fixed(splitmix(seed ^ 0x9_1A17));
    config.failure_persistence = None;
    let mut runner = TestRunner::new(config);
    let mut cfg = (hc.cfg)(tier);
    // (bulk sizes stay small here: the point is the call mix, not depth)
    cfg.churn_pow = cfg.churn_pow.min(8);
    cfg.burst_pow = cfg.burst_pow.min(7);
    let strategy = history(cfg);
    let mut cases = Vec::new();
    let mut calls_total = 0u64;
    for _ in 0..n {
        let h = match strategy.new_tree(&mut runner) {
            Ok(t) => t.current(),
            Err(_) => continue,
        };
        let (it, _) = run_history(&h, true, false);
        // blind replay on a fresh instrumented level: what the unhooked build has to reproduce
        let level = pricelevel::PriceLevel::new(h.price);
        let gen = pricelevel::UuidGenerator::new(uuid::Uuid::from_u128(0x5eed));
        let mut calls = Vec::new();
        for c in it.concrete.iter() {
            let r = apply_concrete(&level, &gen, c, 200_000_000);
            let agg = json!([level.visible_quantity(), level.hidden_quantity(), level.order_count()]);
            let entry = match (c, &r) {
                (Concrete::Add(o), OpResult::Added(_)) => json!({"k": "add", "order": o, "agg": agg}),
                (Concrete::Match(q, taker), OpResult::Matched { fills, remaining, complete, filled, .. }) => json!({
                    "k": "match", "qty": q, "taker": taker.to_string(),
                    "fills": fills.iter().map(|f| json!([f.0.to_string(), f.1])).collect::<Vec<_>>(),
                    "remaining": remaining, "complete": complete,
                    "filled": filled.iter().map(|f| f.to_string()).collect::<Vec<_>>(), "agg": agg,
                }),
                (Concrete::Update(u), OpResult::Updated(res)) => json!({
                    "k": "update", "update": u,
                    "res": match res { Ok(o) => json!({"ok": o}), Err(_) => json!({"err": true}) },
                    "agg": agg,
                }),
                (Concrete::Read(_), _) => continue,
                _ => break, // a call that did not complete on the instrumented build: stop here
            };
            calls.push(entry);
        }
        calls_total += calls.len() as u64;
        cases.push(json!({"price": h.price, "calls": calls}));
    }
    json!({"property": hc.id, "engine": "plain_replay", "cases": cases, "calls": calls_total})
}
