//! C05 — per-order matching follows the documented iceberg / reserve / plain rules.
//! Engine E5: exhaustive grid + boundary product + random points, each evaluated
//! through `OrderType::match_against` and through a level holding only that order.

use crate::gen::{self, OrderGenCfg, Profile, BOUNDARY_U64};
use crate::hooks::with_step_budget;
use crate::model::{check_step, ref_match, rounds_estimate, Order};
use crate::runner::*;
use crate::spec::*;
use pricelevel::{OrderId, PriceLevel, UuidGenerator};
use proptest::prelude::*;
use serde::{Deserialize, Serialize};
use serde_json::json;
use std::sync::Mutex;

#[derive(Clone, Debug, Hash, PartialEq, Eq, Serialize, Deserialize)]
pub struct Point {
    pub spec: OrderSpec,
    pub id: IdSpec,
    pub price: u64,
    pub incoming: u64,
}

fn nontrivial(o: &Order, q: u64) -> bool {
    // something other than "nothing happens": a fill, a replenishment or the order leaves
    let r = ref_match(o, q);
    r.consumed > 0 || r.hidden_moved > 0 || r.next.is_none()
}

/// Evaluate one point both ways. Err(reason) = violation of C05.
pub fn eval_point(p: &Point, st: &mut Stats) -> Result<(), String> {
    let o = p.spec.build(p.id.build(), p.price);
    let q = p.incoming;
    // (1) the pure rule
    let (consumed, next, moved, remaining) =
        catch(|| o.match_against(q)).map_err(|m| format!("match_against panicked: {m}"))?;
    check_step(&o, q, consumed, &next, moved, remaining)
        .map_err(|e| format!("match_against({}, incoming {}): {}", brief(&o), q, e))?;
    // the same order carrying a caller-defined payload (OrderType<T>): same outcome, payload intact
    {
        let payload: u64 = 0xA11C_E000 ^ q;
        let op = o.map_extra_fields(|_| payload);
        let (c2, n2, m2, r2) = catch(|| op.match_against(q)).map_err(|m| format!("match_against panicked on OrderType<u64>: {m}"))?;
        let n2_unit = n2.map(|x| {
            let keep = *x.extra_fields() == payload;
            (x.map_extra_fields(|_| ()), keep)
        });
        if (c2, n2_unit.as_ref().map(|x| x.0), m2, r2) != (consumed, next, moved, remaining) {
            return Err(format!("match_against({}, incoming {}) differs when the order carries extra fields", brief(&o), q));
        }
        if let Some((_, false)) = n2_unit {
            return Err(format!("match_against({}, incoming {}) changed the order's extra fields", brief(&o), q));
        }
    }
    let nt = nontrivial(&o, q);
    if nt {
        st.nontrivial(hash_of(p));
        st.count(&format!("nontrivial/{}", p.spec.kind.name()));
    } else {
        st.count("trivial");
    }
    if consumed > 0 && next.is_some() && moved == 0 {
        st.count("outcome/partial_fill");
    }
    if moved > 0 {
        st.count("outcome/replenished");
    }
    if next.is_none() {
        st.count("outcome/leaves");
    }
    // (2) the same rule seen through a level holding just this order
    if q == 0 {
        return Ok(());
    }
    let rounds = rounds_estimate(&o, q);
    if rounds > 64 {
        st.count("level_view/skipped_many_rounds");
        return Ok(());
    }
    st.count("level_view/evaluated");
    level_view(&o, p.price, q, rounds)
        .map_err(|e| format!("level holding only {} matched with {}: {}", brief(&o), q, e))
}

fn level_view(o: &Order, price: u64, q: u64, rounds: u64) -> Result<(), String> {
    // reference sweep (canonical tranche); remember whether an iceberg refresh happened
    let mut cur = Some(*o);
    let mut rem = q;
    let mut executed: u64 = 0;
    let mut fills: Vec<u64> = Vec::new();
    let mut refreshed_iceberg = false;
    let mut guard = 0;
    while rem > 0 {
        let s = match cur {
            Some(s) => s,
            None => break,
        };
        let r = ref_match(&s, rem);
        if r.consumed == 0 && r.next == Some(s) {
            break; // cannot trade and cannot replenish: stays as it is
        }
        if Kind::of(&s) == Kind::Iceberg && r.hidden_moved > 0 {
            refreshed_iceberg = true;
        }
        if r.consumed > 0 {
            fills.push(r.consumed);
        }
        executed += r.consumed;
        rem = r.remaining;
        cur = r.next;
        guard += 1;
        if guard > 200 {
            return Ok(()); // estimate was wrong; do not judge
        }
    }
    let level = PriceLevel::new(price);
    level.add_order(*o);
    let taker = OrderId::from_u64(0xdead_beef);
    let gen = UuidGenerator::new(uuid::Uuid::nil());
    let budget = 2000 + 400 * (rounds + 2);
    debug_assert!(rounds <= 64);
    let (res, _steps) = with_step_budget(budget, || level.match_order(q, taker, &gen))
        .map_err(|e| format!("match_order {e}"))?;
    let listed = level.iter_orders();
    let got_exec = res.executed_quantity();
    let total_before = o.visible_quantity() + o.hidden_quantity();
    let final_listed: Option<Order> = listed.first().map(|a| **a);
    if listed.len() > 1 {
        return Err(format!("{} orders listed after matching a single order", listed.len()));
    }
    let canonical_ok = got_exec == executed
        && res.remaining_quantity == rem
        && final_listed == cur
        && res
            .transactions
            .as_vec()
            .iter()
            .map(|t| t.quantity)
            .collect::<Vec<_>>()
            == fills;
    if !canonical_ok {
        if refreshed_iceberg {
            // other admissible tranches: totals must still be exact
            let d0 = o.visible_quantity();
            let want_exec = q.min(total_before);
            if got_exec != want_exec || res.remaining_quantity != q - want_exec {
                return Err(format!(
                    "executed {} remaining {} (expected {} / {})",
                    got_exec,
                    res.remaining_quantity,
                    want_exec,
                    q - want_exec
                ));
            }
            match final_listed {
                None => {
                    if want_exec != total_before {
                        return Err("iceberg left the book with quantity remaining".into());
                    }
                }
                Some(f) => {
                    let (fd, fh) = (f.visible_quantity(), f.hidden_quantity());
                    if fd + fh != total_before - want_exec || fd == 0 || fd > d0 {
                        return Err(format!(
                            "iceberg rests as {} after {} of {} traded",
                            brief(&f),
                            want_exec,
                            total_before
                        ));
                    }
                    if with_quantities(o, fd, fh) != f {
                        return Err("identity fields changed".into());
                    }
                }
            }
        } else {
            return Err(format!(
                "executed {} (fills {:?}) remaining {} resting {:?}; reference: executed {} (fills {:?}) remaining {} resting {:?}",
                got_exec,
                res.transactions.as_vec().iter().map(|t| t.quantity).collect::<Vec<_>>(),
                res.remaining_quantity,
                final_listed.as_ref().map(brief),
                executed,
                fills,
                rem,
                cur.as_ref().map(brief)
            ));
        }
    }
    // the level's counters must have moved accordingly
    let (ed, eh, ec) = match final_listed {
        Some(f) => (f.visible_quantity(), f.hidden_quantity(), 1usize),
        None => (0, 0, 0),
    };
    if level.visible_quantity() != ed || level.hidden_quantity() != eh || level.order_count() != ec {
        return Err(format!(
            "level counters visible={} hidden={} count={} but the resting order says {}/{}/{}",
            level.visible_quantity(),
            level.hidden_quantity(),
            level.order_count(),
            ed,
            eh,
            ec
        ));
    }
    Ok(())
}

fn base_spec(kind: Kind) -> OrderSpec {
    OrderSpec {
        kind,
        display: 0,
        hidden: 0,
        buy: true,
        tif: Tif::Gtc,
        ts: 7,
        threshold: 0,
        amount: None,
        auto: true,
        trail: 3,
        lastref: 99,
        offset: -5,
        peg: 2,
        own_price: None,
    }
}

/// (i) the exhaustive grid of small values
pub fn grid_points() -> Vec<Point> {
    let mut v = Vec::new();
    let thr = [0u64, 1, 2, 3, 5, 9];
    let amt = [None, Some(0u64), Some(1), Some(2), Some(3), Some(5), Some(80), Some(81)];
    for kind in ALL_KINDS {
        for d in 0..=8u64 {
            for q in 0..=18u64 {
                let mut s = base_spec(kind);
                s.display = d;
                s.buy = (d + q) % 2 == 0;
                match kind {
                    Kind::Iceberg => {
                        for h in 0..=8u64 {
                            let mut s = s;
                            s.hidden = h;
                            v.push(Point { spec: s, id: IdSpec::FromU64(d * 100 + h), price: 100, incoming: q });
                        }
                    }
                    Kind::Reserve => {
                        for h in 0..=8u64 {
                            for t in thr {
                                for a in amt {
                                    for auto in [false, true] {
                                        let mut s = s;
                                        s.hidden = h;
                                        s.threshold = t;
                                        s.amount = a;
                                        s.auto = auto;
                                        v.push(Point { spec: s, id: IdSpec::Ulid((d * 100 + h) as u128), price: 100, incoming: q });
                                    }
                                }
                            }
                        }
                    }
                    _ => v.push(Point { spec: s, id: IdSpec::FromU64(d), price: 100, incoming: q }),
                }
            }
        }
    }
    v
}

/// (ii) the full product of the 64-bit boundary set with display + hidden <= u64::MAX
pub fn boundary_points() -> Vec<Point> {
    let b = BOUNDARY_U64;
    let mut v = Vec::new();
    let mut amounts: Vec<Option<u64>> = vec![None];
    amounts.extend(b.iter().map(|x| Some(*x)));
    for kind in ALL_KINDS {
        for &d in &b {
            for &q in &b {
                let mut s = base_spec(kind);
                s.display = d;
                match kind {
                    Kind::Iceberg => {
                        for &h in &b {
                            if d.checked_add(h).is_none() {
                                continue;
                            }
                            let mut s = s;
                            s.hidden = h;
                            v.push(Point { spec: s, id: IdSpec::Uuid(u128::MAX), price: 1, incoming: q });
                        }
                    }
                    Kind::Reserve => {
                        for &h in &b {
                            if d.checked_add(h).is_none() {
                                continue;
                            }
                            for &t in &b {
                                for &a in &amounts {
                                    for auto in [false, true] {
                                        let mut s = s;
                                        s.hidden = h;
                                        s.threshold = t;
                                        s.amount = a;
                                        s.auto = auto;
                                        v.push(Point { spec: s, id: IdSpec::Ulid(u128::MAX), price: 1, incoming: q });
                                    }
                                }
                            }
                        }
                    }
                    _ => v.push(Point { spec: s, id: IdSpec::Uuid(0), price: 1, incoming: q }),
                }
            }
        }
    }
    v
}

fn random_point() -> BoxedStrategy<Point> {
    let small = (
        gen::order_spec(OrderGenCfg::all_types(Profile::Small, true)),
        gen::id_spec(),
        0u64..=10_000,
        prop_oneof![6 => 0u64..=30, 2 => 0u64..=500, 1 => gen::boundary_u64()],
    )
        .prop_map(|(spec, id, price, incoming)| Point { spec, id, price, incoming });
    let big = (
        gen::order_spec(OrderGenCfg::all_types(Profile::Boundary, true)),
        gen::id_spec(),
        0u64..=1,
        gen::boundary_u64(),
    )
        .prop_map(|(mut spec, id, price, incoming)| {
            if spec.display.checked_add(spec.hidden).is_none() {
                spec.hidden = u64::MAX - spec.display;
            }
            Point { spec, id, price, incoming }
        });
    prop_oneof![3 => small, 2 => big].boxed()
}

/// Run an explicit list of points over the workers; first failure (lowest index) wins.
fn run_points(cfg: &RunCfg, points: &[Point]) -> (Stats, Option<Failure<Point>>) {
    let merged = Mutex::new(Stats::default());
    let fail: Mutex<Option<(usize, Failure<Point>)>> = Mutex::new(None);
    let workers = cfg.workers.max(1);
    std::thread::scope(|sc| {
        for w in 0..workers {
            let merged = &merged;
            let fail = &fail;
            sc.spawn(move || {
                let mut st = Stats::default();
                let mut i = w;
                while i < points.len() {
                    let p = &points[i];
                    st.eval();
                    let r = catch(|| eval_point(p, &mut st)).unwrap_or_else(|m| Err(format!("panic: {m}")));
                    if let Err(reason) = r {
                        let mut f = fail.lock().unwrap();
                        if f.as_ref().map(|(j, _)| i < *j).unwrap_or(true) {
                            *f = Some((i, Failure { case: p.clone(), reason }));
                        }
                        break;
                    }
                    if st.want_sample() && i % 9973 == w {
                        let o = p.spec.build(p.id.build(), p.price);
                        let r = ref_match(&o, p.incoming);
                        st.sample(json!({"order": brief(&o), "incoming": p.incoming, "consumed": r.consumed, "next": r.next.as_ref().map(brief), "hidden_moved": r.hidden_moved, "remaining": r.remaining}));
                    }
                    i += workers;
                }
                merged.lock().unwrap().merge(st);
            });
        }
    });
    (
        merged.into_inner().unwrap(),
        fail.into_inner().unwrap().map(|(_, f)| f),
    )
}

pub fn run(cfg: &RunCfg) -> Report {
    let mut rep = Report::new(
        "C05",
        "exploration",
        "points (order of any of the 7 types, incoming quantity): (i) exhaustive grid display,hidden in 0..=8, threshold in {0,1,2,3,5,9}, amount in {None,0,1,2,3,5,80,81}, auto in {0,1}, incoming in 0..=18; (ii) full product of 13 64-bit boundary values over display/hidden/threshold/amount/incoming with display+hidden<=u64::MAX; (iii) proptest random points (small and boundary profiles, values around powers of two and ten); (iv) stateful histories (as C06's, iceberg/reserve-heavy, with bulk operations) in which after every match each order must rest exactly as the reference rule says (the rules seen through a level holding many orders). Each point is run through OrderType::match_against and through PriceLevel::match_order on a level holding only that order (skipped when the sweep needs >64 rounds) and compared field for field with an independent reference rule. Non-trivial = the reference says something happens (a fill, a replenishment, or the order leaves); distinct = 64-bit hash of the point.",
    );
    rep.assumptions = vec![
        "iceberg tranche: any size <= min(exhausted display, hidden) and >= 1 is accepted, as the statement allows".into(),
        "reserve and plain-type rules are compared exactly".into(),
    ];
    let grid = grid_points();
    let bnd = boundary_points();
    rep.extra.insert("grid_points".into(), json!(grid.len()));
    rep.extra.insert("boundary_points".into(), json!(bnd.len()));
    rep.absorb("c05_point", run_points(cfg, &grid));
    if !rep.failed() {
        rep.absorb("c05_point", run_points(cfg, &bnd));
    }
    rep.exhaustive = Some(false);
    rep.extra.insert(
        "exhaustive_part".into(),
        json!("the grid (i) and the boundary product (ii) are enumerated completely on every run; (iii) is sampled"),
    );
    if !rep.failed() {
        // the same rules seen through PriceLevel::match_order on levels holding many orders
        // (E1 histories; oracle: after every match each traded / visited order rests exactly as
        // the reference rule says)
        let n = cfg.cases(100_000, 4_000_000);
        let tier = cfg.tier;
        rep.absorb(
            "history",
            explore(cfg, "C05-hist", n, move || crate::seq::history((C05H.cfg)(tier)), |h: &crate::seq::History, st| {
                crate::checks::hist::eval(&C05H, h, st, (true, true))
            }),
        );
    }
    if !rep.failed() {
        let n = cfg.cases(2_000_000, 100_000_000);
        rep.absorb(
            "c05_point",
            explore(cfg, "c05-random", n, random_point, |p: &Point, st| {
                let r = eval_point(p, st);
                if st.want_sample() && nontrivial(&p.spec.build(p.id.build(), p.price), p.incoming) {
                    let o = p.spec.build(p.id.build(), p.price);
                    let rr = ref_match(&o, p.incoming);
                    st.sample(json!({"order": brief(&o), "incoming": p.incoming, "consumed": rr.consumed, "next": rr.next.as_ref().map(brief), "hidden_moved": rr.hidden_moved, "remaining": rr.remaining}));
                }
                r
            }),
        );
    }
    rep
}

fn c05h_cfg(t: Tier) -> crate::seq::HistCfg {
    let mut c = crate::seq::HistCfg::general(t.pick(40, 100));
    c.churn_pow = t.pick(14, 17);
    c.burst_pow = t.pick(10, 13);
    c.w_rebuild = 0;
    c.w_read = 0;
    c.w_bulk = 2;
    c.kind_weights = [2, 6, 1, 1, 1, 1, 7];
    c
}

pub const C05H: crate::checks::hist::HistCheck = crate::checks::hist::HistCheck {
    id: "C05",
    oracles: &[crate::seq::Oracle::Rule, crate::seq::Oracle::Panic],
    cfg: c05h_cfg,
    nontrivial: |f| f.partial_fills + f.replenishments >= 1,
    rule: "",
    quick: 150_000,
    thorough: 6_000_000,
    twin_without_reads: false,
    assumptions: &[],
};

pub fn replay(v: &serde_json::Value) -> Result<(), String> {
    if v["engine"] == "history" {
        let h: crate::seq::History = load_case(v)?;
        return crate::checks::hist::eval(&C05H, &h, &mut Stats::default(), (true, true));
    }
    let p: Point = load_case(v)?;
    let mut st = Stats::default();
    eval_point(&p, &mut st)
}
