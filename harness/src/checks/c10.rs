//! C10 — snapshot and serialization round trips preserve content; aggregates are derived.
//! (a) E1 histories with rebuilds through all seven paths (oracle `Rebuild` of the history
//! engine, incl. the listing shape after every step); (b) externally supplied snapshot /
//! level-data / JSON / text whose aggregate fields disagree with their orders.

use crate::checks::codec::{book_spec, BookSpec};
use crate::gen;
use crate::runner::*;
use crate::seq::*;
use crate::spec::brief;
use pricelevel::{OrderType, PriceLevel, PriceLevelData, PriceLevelSnapshot, PriceLevelSnapshotPackage};
use proptest::prelude::*;
use serde::{Deserialize, Serialize};
use serde_json::json;
use std::str::FromStr;
use std::sync::Arc;

fn c10_cfg(t: Tier) -> HistCfg {
    let mut c = HistCfg::general(t.pick(30, 90));
    c.churn_pow = t.pick(14, 17);
    c.burst_pow = t.pick(10, 13);
    c.w_rebuild = 14;
    c.w_read = 1;
    c
}

fn c10_history(t: Tier) -> BoxedStrategy<History> {
    (history(c10_cfg(t)), proptest::sample::select(ALL_REBUILDS.to_vec()))
        .prop_map(|(mut h, p)| {
            h.ops.push(Op::Rebuild(p));
            h
        })
        .boxed()
}

#[derive(Clone, Debug, Hash, PartialEq, Eq, Serialize, Deserialize)]
pub struct External {
    pub book: BookSpec,
    pub vis: u64,
    pub hid: u64,
    pub count: u64,
    pub path: u8,
    /// order of the fields in an externally written text (0: as the library writes them;
    /// otherwise rotated by perm % 5, reversed if perm >= 8): the format is `name=value` pairs
    #[serde(default)]
    pub perm: u8,
}

pub const PATHS: [&str; 10] = [
    "PriceLevel::from_snapshot(snapshot)",
    "PriceLevel::from(&snapshot)",
    "PriceLevelSnapshotPackage::new(snapshot) -> from_snapshot_package",
    "PriceLevelSnapshotPackage::new(snapshot).to_json -> from_snapshot_json",
    "PriceLevel::try_from(PriceLevelData)",
    "serde_json::from_str::<PriceLevel>(data JSON)",
    "PriceLevel::from_str(text)",
    "serde_json::from_str::<PriceLevelSnapshot>(snapshot JSON) -> from_snapshot",
    "package sealed outside the library (SHA-256 over the snapshot's JSON as supplied) -> from_snapshot_package",
    "JSON of a package sealed outside the library -> from_snapshot_json",
];

fn external() -> BoxedStrategy<External> {
    (book_spec(6), gen::boundary_u64(), gen::boundary_u64(), prop_oneof![gen::boundary_u64(), 0u64..10], 0u8..10, prop_oneof![1 => Just(0u8), 1 => 1u8..16])
        .prop_map(|(book, vis, hid, count, path, perm)| External { book, vis, hid, count, path, perm })
        .boxed()
}

pub fn eval_external(e: &External, st: &mut Stats) -> Result<(), String> {
    let orders: Vec<OrderType<()>> = e.book.build_orders();
    let sum_vis: u64 = orders.iter().map(|o| o.visible_quantity()).sum();
    let sum_hid: u64 = orders.iter().map(|o| o.hidden_quantity()).sum();
    let snapshot = PriceLevelSnapshot {
        price: e.book.price,
        visible_quantity: e.vis,
        hidden_quantity: e.hid,
        order_count: e.count as usize,
        orders: orders.iter().map(|o| Arc::new(*o)).collect(),
    };
    let data = || PriceLevelData {
        price: e.book.price,
        visible_quantity: e.vis,
        hidden_quantity: e.hid,
        order_count: e.count as usize,
        orders: orders.clone(),
    };
    let path = PATHS[e.path as usize % PATHS.len()];
    st.count(&format!("external/{}", e.path as usize % PATHS.len()));
    let built: Result<PriceLevel, String> = catch(|| -> Result<PriceLevel, String> {
        match e.path as usize % PATHS.len() {
            0 => PriceLevel::from_snapshot(snapshot.clone()).map_err(|x| x.to_string()),
            1 => Ok(PriceLevel::from(&snapshot)),
            2 => {
                let p = PriceLevelSnapshotPackage::new(snapshot.clone()).map_err(|x| x.to_string())?;
                if p.snapshot.visible_quantity != sum_vis || p.snapshot.hidden_quantity != sum_hid || p.snapshot.order_count != orders.len() {
                    return Err(format!(
                        "the package carries the supplied aggregates {}/{}/{} instead of the derived {}/{}/{}",
                        p.snapshot.visible_quantity, p.snapshot.hidden_quantity, p.snapshot.order_count, sum_vis, sum_hid, orders.len()
                    ));
                }
                PriceLevel::from_snapshot_package(p).map_err(|x| x.to_string())
            }
            3 => {
                let p = PriceLevelSnapshotPackage::new(snapshot.clone()).map_err(|x| x.to_string())?;
                let j = p.to_json().map_err(|x| x.to_string())?;
                PriceLevel::from_snapshot_json(&j).map_err(|x| x.to_string())
            }
            4 => PriceLevel::try_from(data()).map_err(|x| x.to_string()),
            5 => {
                let j = serde_json::to_string(&data()).map_err(|x| x.to_string())?;
                serde_json::from_str::<PriceLevel>(&j).map_err(|x| x.to_string())
            }
            6 => {
                let mut fields = vec![
                    format!("price={}", e.book.price),
                    format!("visible_quantity={}", e.vis),
                    format!("hidden_quantity={}", e.hid),
                    format!("order_count={}", e.count),
                    format!("orders=[{}]", orders.iter().map(|o| o.to_string()).collect::<Vec<_>>().join(",")),
                ];
                fields.rotate_left(e.perm as usize % 5);
                if e.perm >= 8 {
                    fields.reverse();
                }
                if e.perm != 0 {
                    st.count("external/text_with_fields_in_another_order");
                }
                let t = format!("PriceLevel:{}", fields.join(";"));
                PriceLevel::from_str(&t).map_err(|x| x.to_string())
            }
            7 => {
                let j = serde_json::to_string(&snapshot).map_err(|x| x.to_string())?;
                let s: PriceLevelSnapshot = serde_json::from_str(&j).map_err(|x| x.to_string())?;
                PriceLevel::from_snapshot(s).map_err(|x| x.to_string())
            }
            k => {
                // a package written by another program: the figures as supplied, sealed with a
                // checksum over exactly those bytes (the format is public: version, snapshot, checksum)
                use sha2::{Digest, Sha256};
                let payload = serde_json::to_vec(&snapshot).map_err(|x| x.to_string())?;
                let version = PriceLevelSnapshotPackage::new(PriceLevelSnapshot::new(0)).map_err(|x| x.to_string())?.version;
                let p = PriceLevelSnapshotPackage { version, snapshot: snapshot.clone(), checksum: format!("{:x}", Sha256::digest(&payload)) };
                let r = if k == 8 {
                    PriceLevel::from_snapshot_package(p)
                } else {
                    let j = serde_json::to_string(&p).map_err(|x| x.to_string())?;
                    PriceLevel::from_snapshot_json(&j)
                };
                match r {
                    Ok(l) => Ok(l),
                    // (refusing such a package is another way of not believing it)
                    Err(_) => return Err("REFUSED".into()),
                }
            }
        }
    })
    .map_err(|m| format!("{path} panicked: {m}"))?;
    let level = match built {
        Err(m) if m == "REFUSED" => {
            st.count("external/foreign_sealed_package_refused");
            return Ok(());
        }
        other => other.map_err(|m| format!("{path} failed: {m}"))?,
    };
    let mut got: Vec<OrderType<()>> = level.iter_orders().iter().map(|a| **a).collect();
    let mut want = orders.clone();
    got.sort_by_key(|o| o.id().to_string());
    want.sort_by_key(|o| o.id().to_string());
    if level.price() != e.book.price || got != want {
        return Err(format!(
            "{path}: built level has price {} orders [{}] but the input had price {} orders [{}]",
            level.price(),
            got.iter().map(brief).collect::<Vec<_>>().join(", "),
            e.book.price,
            want.iter().map(brief).collect::<Vec<_>>().join(", ")
        ));
    }
    if level.visible_quantity() != sum_vis || level.hidden_quantity() != sum_hid || level.order_count() != orders.len() {
        return Err(format!(
            "{path}: aggregates {}/{}/{} are not derived from the orders (sums {}/{}/{}); the input carried {}/{}/{}",
            level.visible_quantity(), level.hidden_quantity(), level.order_count(), sum_vis, sum_hid, orders.len(), e.vis, e.hid, e.count
        ));
    }
    let listing = level.iter_orders();
    if listing.windows(2).any(|w| w[0].timestamp() > w[1].timestamp()) {
        return Err(format!("{path}: listing not in non-decreasing timestamp order"));
    }
    if e.vis != sum_vis || e.hid != sum_hid || e.count as usize != orders.len() {
        st.count("external/aggregates_disagree_with_orders");
        if st.nontrivial(hash_of(e)) && st.want_sample() {
            st.sample(json!({"path": path, "orders": orders.iter().map(brief).collect::<Vec<_>>(), "supplied_aggregates": [e.vis, e.hid, e.count], "derived": [sum_vis, sum_hid, orders.len()]}));
        }
    }
    Ok(())
}

pub const C10H: crate::checks::hist::HistCheck = crate::checks::hist::HistCheck {
    id: "C10",
    oracles: &[Oracle::Rebuild, Oracle::Panic],
    cfg: c10_cfg,
    nontrivial: |f| f.rebuild_with_touched,
    rule: "",
    quick: 40_000,
    thorough: 1_500_000,
    twin_without_reads: false,
    assumptions: &[],
};

pub fn run(cfg: &RunCfg) -> Report {
    let mut rep = Report::new(
        "C10",
        "exploration",
        "(a) stateful histories as C01 (so partially filled and replenished orders occur) with rebuilds of the level through its seven round-trip paths (from_snapshot, From<&Snapshot>, snapshot package, snapshot JSON, serde JSON, Display->FromStr, PriceLevelData->TryFrom) at random points and at the end: the rebuild must succeed with the same price, the same orders field for field as a set and the same aggregates; after every step of every history the listing shows each resting id once in non-decreasing timestamp order. (b) externally supplied snapshots / level data / level JSON / level text / snapshot JSON whose aggregate fields are perturbed (boundary values), through ten constructors (incl. a package sealed outside the library with a checksum over the perturbed figures): the built level's aggregates must equal the sums over its orders and PriceLevelSnapshotPackage::new must carry derived figures. Non-trivial = (a) a rebuild of a level holding a partially filled or replenished order, (b) an input whose aggregates disagree with its orders; distinct = hash of the case. Since round 6: externally written texts come with their fields rotated / reversed; in the histories every content-bearing read-only call is decoded again and compared with the level, and one history in seven makes one fixed read-only call after every operation.",
    );
    rep.assumptions = vec!["external inputs have distinct order ids and order.price == level price (DESIGN §8)".into()];
    let tier = cfg.tier;
    let n = cfg.cases(100_000, 3_000_000);
    let known_excuse = (true, true);
    rep.absorb(
        "history",
        explore(cfg, "C10", n, move || c10_history(tier), move |h: &History, st| crate::checks::hist::eval(&C10H, h, st, known_excuse)),
    );
    if !rep.failed() {
        let n2 = cfg.cases(500_000, 15_000_000);
        rep.absorb("external_input", explore(cfg, "C10-ext", n2, external, |e: &External, st| eval_external(e, st)));
    }
    rep
}

pub fn replay(cfg: &RunCfg, v: &serde_json::Value) -> Result<(), String> {
    if v["engine"] == "external_input" {
        let e: External = load_case(v)?;
        return eval_external(&e, &mut Stats::default());
    }
    crate::checks::hist::replay(cfg, &C10H, v)
}
