pub mod c05;
