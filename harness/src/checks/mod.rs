pub mod c05;
pub mod hist;
