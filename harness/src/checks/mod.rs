pub mod c05;
pub mod c09;
pub mod c18;
pub mod codec;
pub mod concur;
pub mod hist;
