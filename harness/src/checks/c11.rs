//! C11 — a level restored from a snapshot trades like the level it was taken from.
//! Differential test: original level vs restored level vs a fresh level to which the
//! snapshot's listed orders are added in listed order, over generated continuations.

use crate::hooks::with_step_budget;
use crate::runner::*;
use crate::seq::*;
use crate::spec::brief;
use pricelevel::{OrderId, PriceLevel, UuidGenerator};
use proptest::prelude::*;
use serde::{Deserialize, Serialize};
use serde_json::json;
use std::collections::HashSet;

#[derive(Clone, Debug, PartialEq, Eq, Hash, Serialize, Deserialize)]
pub struct Case {
    pub prefix: History,
    /// 0 from_snapshot, 1 From<&Snapshot>, 2 snapshot package, 3 snapshot JSON
    pub path: u8,
    pub continuation: Vec<Op>,
}

fn prefix_cfg(t: Tier) -> HistCfg {
    let mut c = HistCfg::general(t.pick(14, 30));
    c.churn_pow = t.pick(14, 17);
    c.burst_pow = t.pick(10, 13);
    c.zeros = false;
    c.zeros_share = 3;
    c.boundary_share = 1;
    c.w_rebuild = 0;
    // (read-only calls before the snapshot: a rendering kept from an earlier call must not be what
    // the restore is made from)
    c.w_read = 3;
    c.w_add = 40;
    c.w_match = 16;
    c.w_cancel = 6;
    c.w_upd_qty = 5;
    c.w_upd_price = 1;
    c.w_upd_pq = 1;
    c.w_replace = 1;
    c.increasing_ts_share = 6;
    c.wrap_ok = true;
    c.boundary_share = 2;
    c
}

fn case(t: Tier) -> BoxedStrategy<Case> {
    let cfg = prefix_cfg(t);
    history(cfg)
        .prop_flat_map(move |prefix| {
            let mut ccfg = cfg;
            ccfg.w_match = 40;
            ccfg.w_add = 15;
            ccfg.w_cancel = 8;
            ccfg.w_upd_qty = 8;
            ccfg.w_bulk = 1;
            // (a prefix with orders that show nothing gets continuations that amend them back to life)
            ccfg.zeros = prefix.zeros;
            ccfg.zeros_share = 0;
            if prefix.zeros {
                ccfg.w_upd_qty = 24;
            }
            let profile = prefix.profile;
            let zeros = prefix.zeros;
            (Just(prefix), 0u8..4, proptest::collection::vec(op_strategy(ccfg, profile), 1..=8), any::<u8>()).prop_map(move |(prefix, path, mut continuation, tail)| {
                // half of the prefixes with orders that show nothing: bring them back to life and
                // trade through them at the end (their queue position is visible in no listing)
                if zeros && tail & 1 == 1 {
                    continuation.push(Op::Revive { qty: 1 + (tail as u64 >> 5), rev: tail & 2 != 0 });
                    continuation.push(Op::Match { size: if tail & 4 != 0 { MatchSize::AllPlus1 } else { MatchSize::AfterFills(1 + (tail >> 3) % 4) } });
                }
                (prefix, path, continuation)
            })
        })
        .prop_map(|(prefix, path, continuation)| Case { prefix, path, continuation })
        .boxed()
}

fn mixed_case(t: Tier) -> BoxedStrategy<Case> {
    prop_oneof![4 => case(t), 1 => scene_case()].boxed()
}

/// Directed scenes (constructed, not filtered): a short queue, strictly increasing timestamps, made of
/// orders that show nothing and cannot replenish (iceberg, display 0, hidden > 0), orders that
/// replenish from hidden (iceberg / auto reserve) and plain ones; a few small matches that end on
/// fill boundaries pass over the former and cycle the latter; the continuation brings every
/// dormant order back (in listing order or reversed) and trades one fill at a time. The position of
/// a dormant order in the queue shows in no listing and no match result until then.
fn scene_spec() -> BoxedStrategy<crate::spec::OrderSpec> {
    use crate::spec::*;
    let base = |kind: Kind, display: u64, hidden: u64, threshold: u64, amount: Option<u64>, auto: bool| OrderSpec {
        kind,
        display,
        hidden,
        buy: false,
        tif: Tif::Gtc,
        ts: 0,
        threshold,
        amount,
        auto,
        trail: 0,
        lastref: 0,
        offset: 0,
        peg: 0,
        own_price: None,
    };
    prop_oneof![
        1 => Just(base(Kind::Standard, 0, 0, 0, None, false)),
        1 => Just(base(Kind::Iceberg, 0, 0, 0, None, false)),
        3 => (1u64..=6).prop_map(move |h| base(Kind::Iceberg, 0, h, 0, None, false)),
        3 => (1u64..=3, 1u64..=8).prop_map(move |(d, h)| base(Kind::Iceberg, d, h, 0, None, false)),
        2 => (1u64..=3, 1u64..=8, 0u64..=2, 1u64..=3).prop_map(move |(d, h, t, a)| base(Kind::Reserve, d, h, t, Some(a), true)),
        2 => (1u64..=4).prop_map(move |d| base(Kind::Standard, d, 0, 0, None, false)),
        1 => (1u64..=3, 1u64..=4).prop_map(move |(d, h)| base(Kind::Reserve, d, h, 0, Some(0), false)),
    ]
    .boxed()
}

fn scene_case() -> BoxedStrategy<Case> {
    use crate::gen::Profile;
    let add = (any::<u16>(), scene_spec()).prop_map(|(slot, spec)| Op::Add { slot, spec });
    let small_match = prop_oneof![
        3 => (1u64..=9).prop_map(MatchSize::Exact),
        4 => (1u8..=4).prop_map(MatchSize::AfterFills),
        1 => (1u8..=3).prop_map(MatchSize::FirstK),
    ]
    .prop_map(|size| Op::Match { size });
    let step = prop_oneof![
        6 => small_match.clone(),
        2 => add.clone(),
        2 => proptest::sample::select(vec![ReadKind::Snapshot, ReadKind::Package, ReadKind::SnapshotJson, ReadKind::IterOrders]).prop_map(Op::Read),
        1 => (any::<u16>(), 0u64..=3).prop_map(|(k, qty)| Op::UpdateQty { target: Target::Resting(k), qty }),
        1 => any::<u16>().prop_map(|k| Op::Cancel { target: Target::Resting(k) }),
    ];
    (
        0u64..=200,
        crate::gen::id_pool(8, 12),
        proptest::collection::vec(add, 3..=7),
        proptest::collection::vec(step.clone(), 0..=6),
        0u8..4,
        proptest::collection::vec(step, 0..=2),
        (1u64..=3, any::<bool>(), 1usize..=6, any::<bool>()),
    )
        .prop_map(|(price, pool, adds, steps, path, mid, (qty, rev, ones, by_fill))| {
            let mut ops = adds;
            ops.extend(steps);
            let mut continuation = mid;
            continuation.push(Op::Revive { qty, rev });
            for _ in 0..ones {
                continuation.push(Op::Match { size: if by_fill { MatchSize::AfterFills(1) } else { MatchSize::Exact(1) } });
            }
            continuation.push(Op::Match { size: MatchSize::AllPlus1 });
            Case {
                prefix: History {
                    zeros: true,
                    price,
                    profile: Profile::Small,
                    ts_mode: TsMode::Increasing,
                    pool,
                    ops,
                    ghost: None,
                    hold: false,
                    gen_start: 0,
                    wrap_ok: false,
                    max_rounds: 0,
                    read_every: None,
                },
                path,
                continuation,
            }
        })
        .boxed()
}

fn normalise(r: &OpResult) -> OpResult {
    match r {
        OpResult::Updated(Err(_)) => OpResult::Updated(Err("error".into())),
        other => other.clone(),
    }
}

pub struct Verdict {
    pub strict: bool,
    pub differs: bool,
    pub nontrivial: bool,
}

pub fn eval(c: &Case, st: &mut Stats, excuse_kf: bool) -> Result<Verdict, String> {
    let (mut it, _) = run_history(&c.prefix, false, false);
    if it.dead || it.violations.iter().any(|v| matches!(v.oracle, Oracle::Panic | Oracle::Term)) {
        st.count("prefix_unusable");
        return Ok(Verdict { strict: false, differs: false, nontrivial: false });
    }
    let resting: Vec<OrderId> = it.model.iter().map(|e| e.id).collect();
    let it_resting_ts: Vec<(u64, OrderId)> = it.model.iter().map(|e| (e.cur.timestamp(), e.id)).collect();
    let stale_at_snapshot: HashSet<OrderId> = it.stale_possible.clone();
    // the original's ticket queue at the snapshot, when the interpreter tracked it exactly
    let tq_at_snapshot: Option<Vec<OrderId>> = it.tq.as_ref().map(|q| q.iter().copied().collect());
    // snapshot and restore
    let snapshot = it.level.snapshot();
    let path_name = ["from_snapshot", "From<&PriceLevelSnapshot>", "snapshot package", "snapshot JSON"][c.path as usize % 4];
    let restored: Result<Result<PriceLevel, String>, String> = catch(|| match c.path % 4 {
        0 => PriceLevel::from_snapshot(snapshot.clone()).map_err(|e| e.to_string()),
        1 => Ok(PriceLevel::from(&snapshot)),
        2 => it.level.snapshot_package().and_then(PriceLevel::from_snapshot_package).map_err(|e| e.to_string()),
        _ => it.level.snapshot_to_json().and_then(|j| PriceLevel::from_snapshot_json(&j)).map_err(|e| e.to_string()),
    });
    let restored = match restored {
        Ok(Ok(l)) => l,
        Ok(Err(e)) => return Err(format!("restoring the level via {path_name} failed: {e}")),
        Err(m) => return Err(format!("restoring the level via {path_name} panicked: {m}")),
    };
    // a level that does not hold the same orders cannot trade the same way: what was restored is
    // what rests on the original now (not what an earlier snapshot call saw)
    {
        let key = |o: &pricelevel::OrderType<()>| o.id().to_string();
        let mut a: Vec<pricelevel::OrderType<()>> = it.level.iter_orders().iter().map(|x| **x).collect();
        let mut b: Vec<pricelevel::OrderType<()>> = restored.iter_orders().iter().map(|x| **x).collect();
        a.sort_by_key(key);
        b.sort_by_key(key);
        if a != b {
            return Err(format!(
                "the level restored via {path_name} does not hold the orders resting on the original: original [{}], restored [{}]",
                a.iter().map(brief).collect::<Vec<_>>().join(", "),
                b.iter().map(brief).collect::<Vec<_>>().join(", ")
            ));
        }
    }
    // the reference for "restored": a fresh level to which the listed orders are added in listed order
    let fresh = PriceLevel::new(c.prefix.price);
    for o in &snapshot.orders {
        fresh.add_order(**o);
    }
    // the original's queue order, read off a twin of the prefix that is drained
    let (twin, _) = run_history(&c.prefix, false, false);
    // (one-unit matches: each pops the queue head, fills one unit and — known finding KF-C04-1 —
    // re-queues the rest at the tail, so n of them visit the resting orders in queue order without
    // ever sweeping a deep iceberg)
    let gen_t = UuidGenerator::new(uuid::Uuid::from_u128(0x7717));
    let mut queue_order: Vec<OrderId> = Vec::new();
    let budget = 100_000 + 40 * twin.pushes;
    for k in 0..(2 * resting.len() + 8) {
        if queue_order.len() >= resting.len() {
            break;
        }
        match with_step_budget(budget, || twin.level.match_order(1, OrderId::from_u64(0xD000 + k as u64), &gen_t)) {
            Ok((r, _)) => {
                for t in r.transactions.as_vec() {
                    if !queue_order.contains(&t.maker_order_id) {
                        queue_order.push(t.maker_order_id);
                    }
                }
                if r.transactions.as_vec().is_empty() {
                    break;
                }
            }
            Err(_) => break,
        }
    }
    let ts_of = |id: &OrderId| it.model.iter().find(|e| e.id == *id).map(|e| e.cur.timestamp());
    let increasing = queue_order.len() == resting.len()
        && queue_order.windows(2).all(|w| match (ts_of(&w[0]), ts_of(&w[1])) {
            (Some(a), Some(b)) => a < b,
            _ => false,
        });
    let no_stale_resting = resting.iter().all(|id| !stale_at_snapshot.contains(id));
    // continuation on the original (through the interpreter, which resolves targets) ...
    // (the continuation is compared call by call on three levels: no read-only calls in it)
    it.read_every = None;
    let k0 = it.concrete.len();
    let revived0 = it.facts.revived;
    let mut partial_match = false;
    for op in &c.continuation {
        // (read-only calls, rebuilds and ghost operations are not part of a continuation)
        if matches!(op, Op::GhostAdd { .. } | Op::GhostRemove { .. } | Op::Read(_) | Op::Rebuild(_) | Op::Sibling { .. }) {
            continue;
        }
        let r = it.apply(op);
        if let OpResult::Matched { fills, .. } = &r {
            if !fills.is_empty() && !it.model.is_empty() {
                partial_match = true;
            }
        }
        if it.dead {
            break;
        }
    }
    match it.facts.revived - revived0 {
        0 => {}
        1 => st.count("continuation/revives_one_dormant_order"),
        _ => st.count("continuation/revives_two_or_more_dormant_orders"),
    }
    if it.dead {
        st.count("continuation_aborted_on_original");
        return Ok(Verdict { strict: false, differs: false, nontrivial: false });
    }
    // what every concrete call returned on the original (bulk operations are many calls)
    let res_l: Vec<OpResult> = it.concrete_results[k0..].iter().map(normalise).collect();
    let calls: Vec<Concrete> = it.concrete[k0..].to_vec();
    let readds_stale = calls.iter().any(|c| matches!(c, Concrete::Add(o) if stale_at_snapshot.contains(&o.id())));
    let strict = match &tq_at_snapshot {
        // exact: the restored level queues the resting orders once each, by timestamp; the original
        // behaves the same iff its own tickets - those of resting ids and of ids the continuation
        // adds again - are exactly that sequence
        Some(tq) => {
            st.count("strictness/from_tracked_ticket_queue");
            let resting_set: HashSet<OrderId> = resting.iter().copied().collect();
            let readded: HashSet<OrderId> = calls.iter().filter_map(|c| if let Concrete::Add(o) = c { Some(o.id()) } else { None }).collect();
            let live: Vec<OrderId> = tq.iter().filter(|id| resting_set.contains(id) || readded.contains(id)).copied().collect();
            let mut by_ts: Vec<(u64, OrderId)> = it_resting_ts.clone();
            by_ts.sort_by_key(|x| x.0);
            let no_ties = by_ts.windows(2).all(|w| w[0].0 < w[1].0);
            no_ties && live == by_ts.iter().map(|x| x.1).collect::<Vec<_>>()
        }
        None => {
            st.count("strictness/from_one_unit_probes");
            increasing && no_stale_resting && !readds_stale
        }
    };
    // ... and the same concrete calls on the restored and the fresh level
    let gen_r = UuidGenerator::new(uuid::Uuid::from_u128(0x5eed));
    let gen_f = UuidGenerator::new(uuid::Uuid::from_u128(0x5eed));
    let res_r: Vec<OpResult> = calls.iter().map(|c| normalise(&apply_concrete(&restored, &gen_r, c, 200_000_000))).collect();
    let res_f: Vec<OpResult> = calls.iter().map(|c| normalise(&apply_concrete(&fresh, &gen_f, c, 200_000_000))).collect();
    let nontrivial = resting.len() >= 2 && partial_match;
    if strict {
        st.count("case/strict");
    } else {
        st.count("case/queue_order_differs_from_timestamp_order_or_stale_tickets");
    }
    let show = |rs: &[OpResult]| {
        rs.iter()
            .map(|r| match r {
                OpResult::Matched { requested, fills, remaining, .. } => format!(
                    "match {} -> {:?} rem {}",
                    requested,
                    fills.iter().map(|f| (crate::spec::short_id(f.0), f.1)).collect::<Vec<_>>(),
                    remaining
                ),
                OpResult::Updated(u) => format!("update -> {:?}", u.as_ref().map(|o| o.as_ref().map(brief))),
                other => format!("{:?}", other),
            })
            .collect::<Vec<_>>()
    };
    if res_r != res_f {
        return Err(format!(
            "the level restored via {path_name} does not behave like a fresh level holding the listed orders: restored {:?} vs fresh {:?}",
            show(&res_r),
            show(&res_f)
        ));
    }
    let differs = res_l != res_r;
    if differs {
        if strict || !excuse_kf {
            return Err(format!(
                "the level restored via {path_name} trades differently from the original (queue order at the snapshot was strictly increasing in timestamp: {strict}): original {:?} vs restored {:?}",
                show(&res_l),
                show(&res_r)
            ));
        }
        st.known_hit("KF-C11-1");
    }
    if nontrivial && st.nontrivial(hash_of(c)) && st.want_sample() {
        st.sample(json!({
            "resting_at_snapshot": it.model.len(),
            "restore_path": path_name,
            "strict_case": strict,
            "original": show(&res_l),
            "restored": show(&res_r),
        }));
    }
    Ok(Verdict { strict, differs, nontrivial })
}

pub fn witness_kf() -> Case {
    use crate::gen::Profile;
    use crate::spec::*;
    let s = |q: u64, ts: u64| OrderSpec {
        kind: Kind::Standard,
        display: q,
        hidden: 0,
        buy: false,
        tif: Tif::Gtc,
        ts,
        threshold: 0,
        amount: None,
        auto: false,
        trail: 0,
        lastref: 0,
        offset: 0,
        peg: 0,
        own_price: None,
    };
    Case {
        prefix: History {
            zeros: false,
            price: 100,
            profile: Profile::Small,
            ts_mode: TsMode::AsGiven,
            pool: vec![IdSpec::FromU64(1), IdSpec::FromU64(2)],
            ops: vec![Op::Add { slot: 0, spec: s(10, 5) }, Op::Add { slot: 40000, spec: s(10, 2) }],
            ghost: None,
            hold: false,
            gen_start: 0,
            wrap_ok: false,
            max_rounds: 0,
            read_every: None,
        },
        path: 0,
        continuation: vec![Op::Match { size: MatchSize::Exact(4) }],
    }
}

pub fn run(cfg: &RunCfg) -> Report {
    let mut rep = Report::new(
        "C11",
        "exploration",
        "cases = (prefix history as C04: adds with increasing / tied / arbitrary timestamps, matches, cancels, re-adds, amendments, positive quantities; restore path: from_snapshot, From<&Snapshot>, package, JSON; continuation of 1-8 matches, cancels, amendments and adds). The continuation is applied to the original level, to the level restored from its snapshot and to a fresh level to which the snapshot's listed orders are added in listed order; results are compared op by op (makers, sequence, quantities, returned orders; transaction ids and wall-clock timestamps ignored). restored vs fresh must always agree. original vs restored must agree whenever the original's queue order (read off a drained twin of the prefix) is strictly increasing in timestamp and no resting or re-added id has a stale ticket; differences outside that region are the listed known finding KF-C11-1 (counted). Since round 4: three in ten prefixes contain orders that show nothing, and half of their continuations end by amending all such orders back to a positive display and trading through them; the original's queue at the snapshot is the interpreter's exactly tracked ticket queue (strictness/from_tracked_ticket_queue), and KF-C11-1 applies exactly when the tickets of resting and re-added ids are not the resting orders once each in strictly increasing timestamp order. Since round 6: one case in five is a constructed scene (dormant, replenishing and plain orders with increasing timestamps; small matches ending on fill boundaries; the continuation amends every dormant order back to life and trades one fill at a time; counters continuation/revives_*); prefixes contain read-only calls (a rendering kept from an earlier call must not be what the restore is made from), scenes contain orders of the kinds a match drops silently, and before anything is traded the restored level must hold exactly the orders resting on the original. Non-trivial = >=2 orders resting at the snapshot and a continuation match that trades without draining the level; distinct = hash of the case.",
    );
    rep.assumptions = vec!["order.price == level price; ids unique among resting orders (DESIGN §8)".into()];
    let known = crate::known::load(&cfg.root);
    let excuse = known.listed("C11", "KF-C11-1");
    let tier = cfg.tier;
    let n = cfg.cases(160_000, 2_400_000);
    rep.absorb("restore_differential", explore(cfg, "C11", n, move || mixed_case(tier), move |c: &Case, st| eval(c, st, excuse).map(|_| ())));
    for f in known.for_property("C11") {
        let hit = crate::known::read_witness(&cfg.root, f)
            .and_then(|v| load_case::<Case>(&v).ok())
            .and_then(|c| eval(&c, &mut Stats::default(), true).ok())
            .map(|v| v.differs && !v.strict)
            .unwrap_or(false);
        if hit {
            let total = rep.stats.known.get(&f.id).copied().unwrap_or(0);
            rep.known_lines.push((f.id.clone(), format!("{} [witness {} reproduces; {} differing cases outside the strict region in this run]", f.what, f.witness, total)));
        }
    }
    rep
}

pub fn replay(cfg: &RunCfg, v: &serde_json::Value) -> Result<(), String> {
    let c: Case = load_case(v)?;
    let known = crate::known::load(&cfg.root);
    let mut st = Stats::default();
    let r = eval(&c, &mut st, known.listed("C11", "KF-C11-1"));
    println!("{}", serde_json::to_string_pretty(&describe(&c.prefix)).unwrap());
    r.map(|v| println!("strict={} differs={}", v.strict, v.differs))
}
