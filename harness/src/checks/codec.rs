//! Engine E3 — C16 (text) and C17 (JSON) round trips for every codec type.

use crate::gen::{self, OrderGenCfg, Profile};
use crate::runner::*;
use crate::spec::*;
use pricelevel::verif::{AtomicU64, AtomicUsize};
use pricelevel::{
    MatchResult, OrderId, OrderQueue, OrderType, OrderUpdate, PegReferenceType, PriceLevel,
    PriceLevelSnapshot, PriceLevelSnapshotPackage, PriceLevelStatistics, Side, TimeInForce,
    Transaction, TransactionList,
};
use proptest::prelude::*;
use serde::{Deserialize, Serialize};
use serde_json::json;
use std::str::FromStr;
use std::sync::atomic::Ordering;
use std::sync::Arc;

#[derive(Clone, Debug, Hash, PartialEq, Eq, Serialize, Deserialize)]
pub struct TxSpec {
    #[serde(with = "crate::spec::u128_hex")]
    pub txid: u128,
    pub taker: IdSpec,
    pub maker: IdSpec,
    pub price: u64,
    pub quantity: u64,
    pub buy: bool,
    pub timestamp: u64,
}

impl TxSpec {
    pub fn build(&self) -> Transaction {
        Transaction {
            transaction_id: uuid::Uuid::from_u128(self.txid),
            taker_order_id: self.taker.build(),
            maker_order_id: self.maker.build(),
            price: self.price,
            quantity: self.quantity,
            taker_side: if self.buy { Side::Buy } else { Side::Sell },
            timestamp: self.timestamp,
        }
    }
}

#[derive(Clone, Debug, Hash, PartialEq, Eq, Serialize, Deserialize)]
pub enum UpdSpec {
    Price(IdSpec, u64),
    Qty(IdSpec, u64),
    PriceQty(IdSpec, u64, u64),
    Cancel(IdSpec),
    Replace(IdSpec, u64, u64, bool),
}

impl UpdSpec {
    pub fn build(&self) -> OrderUpdate {
        match *self {
            UpdSpec::Price(i, p) => OrderUpdate::UpdatePrice { order_id: i.build(), new_price: p },
            UpdSpec::Qty(i, q) => OrderUpdate::UpdateQuantity { order_id: i.build(), new_quantity: q },
            UpdSpec::PriceQty(i, p, q) => OrderUpdate::UpdatePriceAndQuantity {
                order_id: i.build(),
                new_price: p,
                new_quantity: q,
            },
            UpdSpec::Cancel(i) => OrderUpdate::Cancel { order_id: i.build() },
            UpdSpec::Replace(i, p, q, b) => OrderUpdate::Replace {
                order_id: i.build(),
                price: p,
                quantity: q,
                side: if b { Side::Buy } else { Side::Sell },
            },
        }
    }
}

/// A book content: price + orders with distinct ids whose quantities sum within u64.
#[derive(Clone, Debug, Hash, PartialEq, Eq, Serialize, Deserialize)]
pub struct BookSpec {
    pub price: u64,
    pub orders: Vec<(IdSpec, OrderSpec)>,
}

impl BookSpec {
    pub fn build_orders(&self) -> Vec<OrderType<()>> {
        self.orders.iter().map(|(i, s)| s.build(i.build(), self.price)).collect()
    }
    pub fn build_level(&self) -> PriceLevel {
        let l = PriceLevel::new(self.price);
        for o in self.build_orders() {
            l.add_order(o);
        }
        l
    }
}

#[derive(Clone, Debug, Hash, PartialEq, Eq, Serialize, Deserialize)]
pub enum Val {
    Order { spec: OrderSpec, id: IdSpec, price: u64 },
    Update(UpdSpec),
    Id(IdSpec),
    Side(bool),
    Tif(Tif),
    Peg(u8),
    Tx(TxSpec),
    TxList(Vec<TxSpec>),
    MatchRes { id: IdSpec, remaining: u64, complete: bool, txs: Vec<TxSpec>, filled: Vec<IdSpec> },
    Level(BookSpec),
    /// snapshot with arbitrary (possibly inconsistent) aggregate figures
    /// (`share` > 0: one entry of `orders` appears a second time as the same shared allocation,
    /// right after the first for 1..=127, at the end of the list for 128..)
    Snapshot { book: BookSpec, vis: u64, hid: u64, count: u64, #[serde(default)] share: u8 },
    Package(BookSpec),
    Stats([u64; 8]),
    /// a value, then the same value with some quantities changed (same ids), decoded one after the
    /// other while the first decoded value is still alive; kind 0 snapshot, 1 package, 2 level
    Evolving { book: BookSpec, changes: Vec<(u16, u64)>, kind: u8 },
}

impl Val {
    pub fn type_name(&self) -> &'static str {
        match self {
            Val::Order { .. } => "OrderType",
            Val::Update(_) => "OrderUpdate",
            Val::Id(_) => "OrderId",
            Val::Side(_) => "Side",
            Val::Tif(_) => "TimeInForce",
            Val::Peg(_) => "PegReferenceType",
            Val::Tx(_) => "Transaction",
            Val::TxList(_) => "TransactionList",
            Val::MatchRes { .. } => "MatchResult",
            Val::Level(_) => "PriceLevel",
            Val::Snapshot { .. } => "PriceLevelSnapshot",
            Val::Package(_) => "PriceLevelSnapshotPackage",
            Val::Stats(_) => "PriceLevelStatistics",
            Val::Evolving { .. } => "successive snapshots of one level",
        }
    }
}

// ---------------------------------------------------------------------------------
// generators

fn tx_spec() -> BoxedStrategy<TxSpec> {
    (
        gen::boundary_u128(),
        gen::id_spec(),
        gen::id_spec(),
        gen::boundary_u64(),
        gen::boundary_u64(),
        any::<bool>(),
        gen::boundary_u64(),
    )
        .prop_map(|(txid, taker, maker, price, quantity, buy, timestamp)| TxSpec {
            txid,
            taker,
            maker,
            price,
            quantity,
            buy,
            timestamp,
        })
        .boxed()
}

fn upd_spec() -> BoxedStrategy<UpdSpec> {
    let b = gen::boundary_u64;
    prop_oneof![
        (gen::id_spec(), b()).prop_map(|(i, p)| UpdSpec::Price(i, p)),
        (gen::id_spec(), b()).prop_map(|(i, p)| UpdSpec::Qty(i, p)),
        (gen::id_spec(), b(), b()).prop_map(|(i, p, q)| UpdSpec::PriceQty(i, p, q)),
        gen::id_spec().prop_map(UpdSpec::Cancel),
        (gen::id_spec(), b(), b(), any::<bool>()).prop_map(|(i, p, q, s)| UpdSpec::Replace(i, p, q, s)),
    ]
    .boxed()
}

fn any_order_spec() -> BoxedStrategy<OrderSpec> {
    prop_oneof![
        2 => gen::order_spec(OrderGenCfg::all_types(Profile::Boundary, true)),
        1 => gen::order_spec(OrderGenCfg::all_types(Profile::Small, true)),
    ]
    .boxed()
}

/// 0..=max orders, distinct ids, quantities trimmed so that the sums fit in u64
pub fn book_spec(max: usize) -> BoxedStrategy<BookSpec> {
    (
        prop_oneof![gen::boundary_u64(), 0u64..=10_000],
        gen::id_pool(max.max(1), max.max(1)),
        proptest::collection::vec(any_order_spec(), 0..=max),
    )
        .prop_map(|(price, pool, specs)| {
            let mut room: u64 = u64::MAX;
            let mut orders = Vec::new();
            for (i, mut s) in specs.into_iter().enumerate() {
                if s.display > room {
                    s.display = room;
                }
                room -= s.display;
                if s.kind.has_hidden() {
                    if s.hidden > room {
                        s.hidden = room;
                    }
                    room -= s.hidden;
                } else {
                    s.hidden = 0;
                }
                orders.push((pool[i], s));
            }
            BookSpec { price, orders }
        })
        .boxed()
}

fn len_small_or_long(small_max: usize) -> BoxedStrategy<usize> {
    prop_oneof![
        10 => 0..=small_max,
        1 => gen::size_class(10).prop_map(|n| n as usize),
    ]
    .boxed()
}

fn tx_list(small_max: usize) -> BoxedStrategy<Vec<TxSpec>> {
    (len_small_or_long(small_max).prop_flat_map(|n| proptest::collection::vec(tx_spec(), n..=n)), proptest::option::weighted(0.15, any::<u16>()))
        .prop_map(|(mut v, dup)| {
            // sometimes the same element twice in a row (retransmitted / merged lists)
            if let (Some(d), false) = (dup, v.is_empty()) {
                let i = gen::pick(d, v.len());
                let e = v[i].clone();
                v.insert(i, e);
            }
            v
        })
        .boxed()
}

fn id_list(small_max: usize) -> BoxedStrategy<Vec<IdSpec>> {
    (len_small_or_long(small_max), any::<bool>(), gen::boundary_u128())
        .prop_flat_map(|(n, uniform, seed)| {
            if uniform && n > 0 {
                // all ids of one format (fixed-width lists)
                let ulid = seed & 1 == 1;
                Just((0..n as u128).map(|i| if ulid { IdSpec::Ulid(seed.wrapping_add(i)) } else { IdSpec::Uuid(seed.wrapping_add(i)) }).collect::<Vec<_>>()).boxed()
            } else {
                proptest::collection::vec(gen::id_spec(), n..=n).boxed()
            }
        })
        .boxed()
}

/// exactly n orders (fresh counter ids, small quantities): deep levels for length thresholds
pub fn book_spec_exact(n: usize) -> BoxedStrategy<BookSpec> {
    (0u64..=10_000, gen::order_spec(OrderGenCfg::all_types(Profile::Small, true)), any::<bool>())
        .prop_map(move |(price, spec, ulid)| {
            let orders = (0..n)
                .map(|i| {
                    let id = if ulid { IdSpec::Ulid(i as u128 + 1) } else { IdSpec::FromU64(i as u64 + 1) };
                    let mut s = spec;
                    s.ts = i as u64;
                    (id, s)
                })
                .collect();
            BookSpec { price, orders }
        })
        .boxed()
}

pub fn val() -> BoxedStrategy<Val> {
    prop_oneof![
        1 => (any_order_spec(), gen::id_spec(), gen::boundary_u64(), any::<u64>()).prop_map(|(spec, id, price, salt)| {
            // the longest encodings: every numeric field 20 digits wide
            let mut spec = gen::widest(spec, salt);
            if !spec.kind.has_hidden() { spec.hidden = 0; }
            Val::Order { spec, id, price: price | (1 << 63) }
        }),
        6 => (any_order_spec(), gen::id_spec(), gen::boundary_u64()).prop_map(|(mut spec, id, price)| {
            if !spec.kind.has_hidden() { spec.hidden = 0; }
            Val::Order { spec, id, price }
        }),
        3 => upd_spec().prop_map(Val::Update),
        2 => gen::id_spec().prop_map(Val::Id),
        1 => any::<bool>().prop_map(Val::Side),
        2 => gen::tif().prop_map(Val::Tif),
        1 => (0u8..4).prop_map(Val::Peg),
        3 => tx_spec().prop_map(Val::Tx),
        2 => tx_list(7).prop_map(Val::TxList),
        3 => (gen::id_spec(), gen::boundary_u64(), any::<bool>(), tx_list(5), id_list(5))
            .prop_map(|(id, remaining, complete, txs, filled)| Val::MatchRes { id, remaining, complete, txs, filled }),
        3 => book_spec(8).prop_map(Val::Level),
        2 => (book_spec(6), gen::boundary_u64(), gen::boundary_u64(), gen::boundary_u64(), prop_oneof![5 => Just(0u8), 1 => any::<u8>()]).prop_map(|(book, vis, hid, count, share)| Val::Snapshot { book, vis, hid, count, share }),
        2 => book_spec(6).prop_map(Val::Package),
        1 => book_spec(70).prop_map(Val::Level),
        1 => book_spec(70).prop_map(Val::Package),
        1 => gen::size_class(14).prop_flat_map(|n| book_spec_exact(n as usize)).prop_map(Val::Level),
        2 => (book_spec(6), proptest::collection::vec((any::<u16>(), gen::boundary_u64()), 1..4), 0u8..3).prop_map(|(book, changes, kind)| Val::Evolving { book, changes, kind }),
        2 => proptest::array::uniform8(gen::boundary_u64()).prop_map(Val::Stats),
    ]
    .boxed()
}

// ---------------------------------------------------------------------------------
// helpers

fn is_boundary(x: u64) -> bool {
    x > (1 << 53) || gen::BOUNDARY_U64.contains(&x)
}

fn spec_interesting(s: &OrderSpec, id: &IdSpec) -> bool {
    matches!(s.tif, Tif::Gtd(_))
        || matches!(id, IdSpec::Ulid(_))
        || (s.kind == Kind::Reserve && s.amount.is_none())
        || is_boundary(s.display)
        || is_boundary(s.hidden)
        || is_boundary(s.ts)
}

pub fn nontrivial(v: &Val, json_mode: bool) -> bool {
    match v {
        Val::Order { spec, id, price } => spec_interesting(spec, id) || is_boundary(*price),
        Val::Update(u) => match u {
            UpdSpec::Price(i, p) | UpdSpec::Qty(i, p) => matches!(i, IdSpec::Ulid(_)) || is_boundary(*p),
            UpdSpec::PriceQty(i, p, q) | UpdSpec::Replace(i, p, q, _) => {
                matches!(i, IdSpec::Ulid(_)) || is_boundary(*p) || is_boundary(*q)
            }
            UpdSpec::Cancel(i) => matches!(i, IdSpec::Ulid(_)),
        },
        Val::Id(i) => matches!(i, IdSpec::Ulid(_)) || matches!(i, IdSpec::Uuid(0) | IdSpec::Uuid(u128::MAX)),
        Val::Side(_) | Val::Peg(_) => false,
        Val::Tif(t) => matches!(t, Tif::Gtd(_)),
        Val::Tx(t) => is_boundary(t.price) || is_boundary(t.quantity) || is_boundary(t.timestamp) || matches!(t.maker, IdSpec::Ulid(_)),
        Val::TxList(l) => l.len() >= 2,
        Val::MatchRes { txs, filled, remaining, .. } => txs.len() >= 2 || filled.len() >= 2 || is_boundary(*remaining),
        Val::Level(b) | Val::Package(b) => {
            b.orders.len() >= 2 || b.orders.iter().any(|(i, s)| spec_interesting(s, i))
        }
        Val::Snapshot { book, vis, .. } => {
            if json_mode {
                book.orders.len() >= 2 || is_boundary(*vis)
            } else {
                is_boundary(*vis) || is_boundary(book.price)
            }
        }
        Val::Stats(a) => a.iter().any(|x| is_boundary(*x)),
        Val::Evolving { book, .. } => json_mode && !book.orders.is_empty(),
    }
}

fn stats_of(a: &[u64; 8]) -> PriceLevelStatistics {
    PriceLevelStatistics {
        orders_added: AtomicUsize::new(a[0] as usize),
        orders_removed: AtomicUsize::new(a[1] as usize),
        orders_executed: AtomicUsize::new(a[2] as usize),
        quantity_executed: AtomicU64::new(a[3]),
        value_executed: AtomicU64::new(a[4]),
        last_execution_time: AtomicU64::new(a[5]),
        first_arrival_time: AtomicU64::new(a[6]),
        sum_waiting_time: AtomicU64::new(a[7]),
    }
}

fn stats_vec(s: &PriceLevelStatistics) -> [u64; 8] {
    let o = Ordering::Relaxed;
    [
        s.orders_added.load(o) as u64,
        s.orders_removed.load(o) as u64,
        s.orders_executed.load(o) as u64,
        s.quantity_executed.load(o),
        s.value_executed.load(o),
        s.last_execution_time.load(o),
        s.first_arrival_time.load(o),
        s.sum_waiting_time.load(o),
    ]
}

fn update_fields(u: &OrderUpdate) -> (u8, OrderId, u64, u64, Option<Side>) {
    match *u {
        OrderUpdate::UpdatePrice { order_id, new_price } => (0, order_id, new_price, 0, None),
        OrderUpdate::UpdateQuantity { order_id, new_quantity } => (1, order_id, 0, new_quantity, None),
        OrderUpdate::UpdatePriceAndQuantity { order_id, new_price, new_quantity } => (2, order_id, new_price, new_quantity, None),
        OrderUpdate::Cancel { order_id } => (3, order_id, 0, 0, None),
        OrderUpdate::Replace { order_id, price, quantity, side } => (4, order_id, price, quantity, Some(side)),
    }
}

pub type LevelContent = (u64, Vec<OrderType<()>>, u64, u64, usize);

pub fn level_content(l: &PriceLevel) -> LevelContent {
    let mut orders: Vec<OrderType<()>> = l.iter_orders().iter().map(|a| **a).collect();
    orders.sort_by_key(|o| o.id().to_string());
    (l.price(), orders, l.visible_quantity(), l.hidden_quantity(), l.order_count())
}

fn match_fields(m: &MatchResult) -> (OrderId, Vec<Transaction>, u64, bool, Vec<OrderId>) {
    (
        m.order_id,
        m.transactions.as_vec().clone(),
        m.remaining_quantity,
        m.is_complete,
        m.filled_order_ids.clone(),
    )
}

/// Damaged variants of an encoding (cut in half, one character dropped from the middle, a
/// dangling separator): fed to the same decoder between two decodings of the intact text, whose
/// results must not depend on what the thread decoded (and rejected) before.
fn damaged(s: &str) -> Vec<String> {
    let cs: Vec<char> = s.chars().collect();
    if cs.is_empty() {
        return vec![";".into()];
    }
    let half: String = cs[..cs.len() / 2].iter().collect();
    let mut dropped = cs.clone();
    dropped.remove(cs.len() / 2);
    let mut tail = cs.clone();
    let at = cs.len() - cs.len() / 4;
    tail.truncate(at.max(1) - 1);
    vec![half, dropped.into_iter().collect(), tail.into_iter().collect()]
}

/// the orders of a book as snapshot entries; see `Val::Snapshot::share`
pub fn shared_orders(book: &BookSpec, share: u8) -> Vec<Arc<OrderType<()>>> {
    let mut v: Vec<Arc<OrderType<()>>> = book.build_orders().into_iter().map(Arc::new).collect();
    if share > 0 && !v.is_empty() {
        let i = (share as usize % 128) % v.len();
        let a = v[i].clone();
        if share < 128 {
            v.insert(i + 1, a);
        } else {
            v.push(a);
        }
    }
    v
}

fn text_rt<T: FromStr + std::fmt::Display>(x: &T) -> Result<(String, T), String>
where
    T::Err: std::fmt::Display,
{
    let s = catch(|| x.to_string()).map_err(|m| format!("to_string panicked: {m}"))?;
    let parse = |t: &str| -> Result<T, String> {
        let t2 = t.to_string();
        match catch(move || T::from_str(&t2)) {
            Ok(Ok(y)) => Ok(y),
            Ok(Err(e)) => Err(format!("the library cannot parse its own text {:?}: {}", t, e)),
            Err(m) => Err(format!("from_str({:?}) panicked: {m}", t)),
        }
    };
    let y = parse(&s)?;
    // decoding is a function of the text alone: rejected inputs in between change nothing
    for d in damaged(&s) {
        let _ = catch(move || T::from_str(&d).is_ok());
    }
    let y2 = parse(&s).map_err(|e| format!("{e} (second decoding, after the same decoder rejected damaged copies of this text on the same thread)"))?;
    let again = catch(|| x.to_string()).map_err(|m| format!("to_string panicked: {m}"))?;
    if again != s {
        return Err(format!("printing the same value twice gives different text: {:?} then {:?}", s, again));
    }
    Ok((s.clone(), if hash_of(&s) & 1 == 0 { y } else { y2 }))
}

/// a writer that accepts `limit` bytes and then fails (a full disk, a closed socket)
pub struct FailingWriter {
    pub limit: usize,
}

impl std::io::Write for FailingWriter {
    fn write(&mut self, buf: &[u8]) -> std::io::Result<usize> {
        if buf.len() > self.limit {
            self.limit = 0;
            return Err(std::io::Error::new(std::io::ErrorKind::Other, "sink full"));
        }
        self.limit -= buf.len();
        Ok(buf.len())
    }
    fn flush(&mut self) -> std::io::Result<()> {
        Ok(())
    }
}

fn json_rt<T: Serialize + for<'a> Deserialize<'a>>(x: &T) -> Result<(String, T), String> {
    let ser = || -> Result<String, String> {
        match catch(|| serde_json::to_string(x)) {
            Ok(Ok(s)) => Ok(s),
            Ok(Err(e)) => Err(format!("serialization failed: {e}")),
            Err(m) => Err(format!("serialization panicked: {m}")),
        }
    };
    let s = ser()?;
    let de = |t: &str| -> Result<T, String> {
        let t2 = t.to_string();
        match catch(move || serde_json::from_str::<T>(&t2)) {
            Ok(Ok(y)) => Ok(y),
            Ok(Err(e)) => Err(format!("the library cannot deserialize its own JSON {}: {}", t, e)),
            Err(m) => Err(format!("deserializing {} panicked: {m}", t)),
        }
    };
    let y = de(&s)?;
    // a serialization that fails part-way (the sink refuses more bytes) and rejected inputs leave
    // nothing behind: the same value serializes to the same text and decodes again afterwards
    let h = hash_of(&s) as usize;
    for limit in [h % (s.len() + 1), (h >> 20) % (s.len() / 2 + 1)] {
        let _ = catch(|| serde_json::to_writer(FailingWriter { limit }, x).is_ok());
    }
    for d in damaged(&s) {
        let _ = catch(move || serde_json::from_str::<T>(&d).is_ok());
    }
    let again = ser()?;
    if again != s {
        return Err(format!("serializing the same value again (after a write that failed part-way on the same thread) gives different JSON: {} then {}", s, again));
    }
    match catch(|| serde_json::to_vec(x)) {
        Ok(Ok(b)) if b == s.as_bytes() => {}
        _ => return Err(format!("serde_json::to_vec and to_string disagree for {}", s)),
    }
    let y2 = de(&s).map_err(|e| format!("{e} (second decoding, after rejected damaged copies on the same thread)"))?;
    Ok((s.clone(), if h & 1 == 0 { y } else { y2 }))
}

/// The other ways serde_json hands the same JSON to a Deserialize impl: from a reader (no borrowed
/// strings), from a `Value`, from the text of a `Value` (object keys in sorted order) and from
/// pretty-printed text. Each decoded value is compared by `eq` with the `from_str` result.
fn json_other_paths<T: Serialize + for<'a> Deserialize<'a>>(x: &T, y: &T, eq: &dyn Fn(&T, &T) -> bool, what: &str) -> Result<(), String> {
    let text = serde_json::to_string(x).map_err(|e| e.to_string())?;
    let check = |path: &str, r: Result<Result<T, String>, String>| -> Result<(), String> {
        match r {
            Ok(Ok(z)) if eq(&z, y) => Ok(()),
            Ok(Ok(_)) => Err(format!("{what}: decoding the library's JSON via {path} gives a different value than from_str ({text})")),
            Ok(Err(e)) => Err(format!("{what}: the library's JSON cannot be decoded via {path}: {e} ({text})")),
            Err(m) => Err(format!("{what}: decoding via {path} panicked: {m}")),
        }
    };
    check("serde_json::from_reader", catch(|| serde_json::from_reader::<_, T>(text.as_bytes()).map_err(|e| e.to_string())))?;
    check("serde_json::from_slice", catch(|| serde_json::from_slice::<T>(text.as_bytes()).map_err(|e| e.to_string())))?;
    // through a Value (only when every number fits what Value can hold: it always can here)
    if let Ok(v) = serde_json::to_value(x) {
        let v2 = v.clone();
        check("serde_json::to_value -> from_value", catch(move || serde_json::from_value::<T>(v2).map_err(|e| e.to_string())))?;
        let sorted = v.to_string();
        check("the text of serde_json::to_value (object keys sorted)", catch(|| serde_json::from_str::<T>(&sorted).map_err(|e| e.to_string())))?;
    }
    if let Ok(pretty) = serde_json::to_string_pretty(x) {
        check("pretty-printed text", catch(|| serde_json::from_str::<T>(&pretty).map_err(|e| e.to_string())))?;
    }
    Ok(())
}

fn same<T: PartialEq + std::fmt::Debug>(what: &str, enc: &str, a: &T, b: &T) -> Result<(), String> {
    if a == b {
        Ok(())
    } else {
        Err(format!("{what} round trip through {:?} changed the value: {:?} became {:?}", enc, a, b))
    }
}

/// One value through the text codec (C16). Types without a text codec return Ok.
pub fn check_text(v: &Val) -> Result<(), String> {
    match v {
        Val::Order { spec, id, price } => {
            let x = spec.build(id.build(), *price);
            let (s, y) = text_rt(&x)?;
            same("OrderType", &s, &x, &y)
        }
        Val::Update(u) => {
            let x = u.build();
            let (s, y) = text_rt(&x)?;
            same("OrderUpdate", &s, &update_fields(&x), &update_fields(&y))
        }
        Val::Id(i) => {
            let x = i.build();
            let (s, y) = text_rt(&x)?;
            same("OrderId", &s, &x, &y)
        }
        Val::Side(b) => {
            let x = if *b { Side::Buy } else { Side::Sell };
            let (s, y) = text_rt(&x)?;
            same("Side", &s, &x, &y)
        }
        Val::Tif(t) => {
            let x: TimeInForce = t.build();
            let (s, y) = text_rt(&x)?;
            same("TimeInForce", &s, &x, &y)
        }
        Val::Peg(p) => {
            let x: PegReferenceType = peg_of(*p);
            let (s, y) = text_rt(&x)?;
            same("PegReferenceType", &s, &x, &y)
        }
        Val::Tx(t) => {
            let x = t.build();
            let (s, y) = text_rt(&x)?;
            same("Transaction", &s, &x, &y)
        }
        Val::TxList(l) => {
            let x = TransactionList::from_vec(l.iter().map(|t| t.build()).collect());
            let (s, y) = text_rt(&x)?;
            same("TransactionList", &s, &x, &y)
        }
        Val::MatchRes { id, remaining, complete, txs, filled } => {
            let x = MatchResult {
                order_id: id.build(),
                transactions: TransactionList::from_vec(txs.iter().map(|t| t.build()).collect()),
                remaining_quantity: *remaining,
                is_complete: *complete,
                filled_order_ids: filled.iter().map(|i| i.build()).collect(),
            };
            let (s, y) = text_rt(&x)?;
            same("MatchResult", &s, &match_fields(&x), &match_fields(&y))
        }
        Val::Level(b) => {
            let x = b.build_level();
            let (s, y) = text_rt(&x)?;
            same("PriceLevel", &s, &level_content(&x), &level_content(&y))
        }
        Val::Snapshot { book, vis, hid, count, share } => {
            // summary text: price and aggregates
            let x = PriceLevelSnapshot {
                price: book.price,
                visible_quantity: *vis,
                hidden_quantity: *hid,
                order_count: *count as usize,
                orders: shared_orders(book, *share),
            };
            let (s, y) = text_rt(&x)?;
            same(
                "PriceLevelSnapshot summary",
                &s,
                &(x.price, x.visible_quantity, x.hidden_quantity, x.order_count),
                &(y.price, y.visible_quantity, y.hidden_quantity, y.order_count),
            )
        }
        Val::Package(_) | Val::Evolving { .. } => Ok(()),
        Val::Stats(a) => {
            let x = stats_of(a);
            let (s, y) = text_rt(&x)?;
            same("PriceLevelStatistics", &s, &stats_vec(&x), &stats_vec(&y))
        }
    }
}

/// One value through the JSON codec (C17).
pub fn check_json(v: &Val) -> Result<(), String> {
    match v {
        Val::Order { spec, id, price } => {
            let x = spec.build(id.build(), *price);
            let (s, y) = json_rt(&x)?;
            same("OrderType", &s, &x, &y)?;
            json_other_paths(&x, &y, &|a, b| a == b, "OrderType")?;
            // the same order carrying caller-defined extra fields
            #[derive(Clone, Debug, PartialEq, Serialize, Deserialize)]
            struct Extra {
                client: Option<u64>,
                note: String,
                flags: Vec<u8>,
            }
            let e = Extra { client: if spec.buy { Some(spec.ts) } else { None }, note: format!("n{}:\"é;=[", spec.peg), flags: vec![spec.peg, 255] };
            let xe = x.map_extra_fields(|_| e.clone());
            let (se, ye) = json_rt(&xe)?;
            same("OrderType<Extra>", &se, &xe, &ye)
        }
        Val::Update(u) => {
            let x = u.build();
            let (s, y) = json_rt(&x)?;
            same("OrderUpdate", &s, &update_fields(&x), &update_fields(&y))?;
            json_other_paths(&x, &y, &|a, b| update_fields(a) == update_fields(b), "OrderUpdate")
        }
        Val::Id(i) => {
            let x = i.build();
            let (s, y) = json_rt(&x)?;
            same("OrderId", &s, &x, &y)
        }
        Val::Side(b) => {
            let x = if *b { Side::Buy } else { Side::Sell };
            let (s, y) = json_rt(&x)?;
            same("Side", &s, &x, &y)
        }
        Val::Tif(t) => {
            let x: TimeInForce = t.build();
            let (s, y) = json_rt(&x)?;
            same("TimeInForce", &s, &x, &y)
        }
        Val::Peg(p) => {
            let x: PegReferenceType = peg_of(*p);
            let (s, y) = json_rt(&x)?;
            same("PegReferenceType", &s, &x, &y)
        }
        Val::Tx(t) => {
            let x = t.build();
            let (s, y) = json_rt(&x)?;
            same("Transaction", &s, &x, &y)?;
            json_other_paths(&x, &y, &|a, b| a == b, "Transaction")
        }
        Val::TxList(l) => {
            let x = TransactionList::from_vec(l.iter().map(|t| t.build()).collect());
            let (s, y) = json_rt(&x)?;
            same("TransactionList", &s, &x, &y)
        }
        Val::MatchRes { id, remaining, complete, txs, filled } => {
            let x = MatchResult {
                order_id: id.build(),
                transactions: TransactionList::from_vec(txs.iter().map(|t| t.build()).collect()),
                remaining_quantity: *remaining,
                is_complete: *complete,
                filled_order_ids: filled.iter().map(|i| i.build()).collect(),
            };
            let (s, y) = json_rt(&x)?;
            same("MatchResult", &s, &match_fields(&x), &match_fields(&y))?;
            json_other_paths(&x, &y, &|a, b| match_fields(a) == match_fields(b), "MatchResult")
        }
        Val::Level(b) => {
            let x = b.build_level();
            let (s, y) = json_rt(&x)?;
            same("PriceLevel", &s, &level_content(&x), &level_content(&y))?;
            if b.orders.len() <= 80 {
                json_other_paths(&x, &y, &|a, b| level_content(a) == level_content(b), "PriceLevel")?;
            }
            Ok(())
        }
        Val::Snapshot { book, vis, hid, count, share } => {
            let x = PriceLevelSnapshot {
                price: book.price,
                visible_quantity: *vis,
                hidden_quantity: *hid,
                order_count: *count as usize,
                orders: shared_orders(book, *share),
            };
            let (s, y) = json_rt(&x)?;
            let f = |z: &PriceLevelSnapshot| {
                (
                    z.price,
                    z.visible_quantity,
                    z.hidden_quantity,
                    z.order_count,
                    z.orders.iter().map(|a| **a).collect::<Vec<_>>(),
                )
            };
            same("PriceLevelSnapshot", &s, &f(&x), &f(&y))?;
            json_other_paths(&x, &y, &|a, b| f(a) == f(b), "PriceLevelSnapshot")
        }
        Val::Package(b) => {
            let level = b.build_level();
            let pkg = level.snapshot_package().map_err(|e| format!("snapshot_package failed: {e}"))?;
            let s = pkg.to_json().map_err(|e| format!("to_json failed: {e}"))?;
            let back = PriceLevelSnapshotPackage::from_json(&s).map_err(|e| format!("the library cannot read its own package {}: {}", s, e))?;
            if back.version != pkg.version || back.checksum != pkg.checksum {
                return Err(format!("package version/checksum changed across JSON: {} / {} became {} / {}", pkg.version, pkg.checksum, back.version, back.checksum));
            }
            back.validate().map_err(|e| format!("package no longer validates after the JSON trip ({}): {}", s, e))?;
            let (s2, y) = json_rt(&pkg)?;
            json_other_paths(&pkg, &y, &|a, b| a.version == b.version && a.checksum == b.checksum && b.validate().is_ok(), "PriceLevelSnapshotPackage")?;
            y.validate().map_err(|e| format!("package no longer validates after serde trip ({}): {}", s2, e))?;
            let restored = PriceLevel::from_snapshot_package(back).map_err(|e| format!("restore failed: {e}"))?;
            same("PriceLevelSnapshotPackage -> level", &s, &level_content(&level), &level_content(&restored))?;
            // the same package carrying some other checksum text and version (it will not validate,
            // but it is a value of the type and must survive both encoders unchanged)
            const TEXTS: [&str; 10] = ["", "00", "not hex", "quote\"inside", "back\\slash", "tab\tnew\nline", "bell\u{7}\u{8}\u{c}", "nul\u{0}del\u{7f}", "é€\u{1F600}", "\u{2028}\u{85}\u{feff}"];
            let h = hash_of(b) as usize;
            let mut odd = pkg.clone();
            odd.checksum = TEXTS[h % TEXTS.len()].to_string();
            odd.version = [0u32, 1, 2, u32::MAX][(h >> 8) % 4];
            let t = odd.to_json().map_err(|e| format!("to_json failed: {e}"))?;
            let back = PriceLevelSnapshotPackage::from_json(&t).map_err(|e| format!("the library cannot read the package text it wrote ({:?}): {}", t, e))?;
            if back.version != odd.version || back.checksum != odd.checksum || back.snapshot.orders.len() != odd.snapshot.orders.len() {
                return Err(format!("package (version {}, checksum {:?}) came back from to_json / from_json as (version {}, checksum {:?})", odd.version, odd.checksum, back.version, back.checksum));
            }
            let (t2, y2) = json_rt(&odd)?;
            if y2.version != odd.version || y2.checksum != odd.checksum {
                return Err(format!("package (version {}, checksum {:?}) came back from serde as (version {}, checksum {:?}) via {}", odd.version, odd.checksum, y2.version, y2.checksum, t2));
            }
            Ok(())
        }
        Val::Stats(a) => {
            let x = stats_of(a);
            let (s, y) = json_rt(&x)?;
            same("PriceLevelStatistics", &s, &stats_vec(&x), &stats_vec(&y))?;
            json_other_paths(&x, &y, &|a, b| stats_vec(a) == stats_vec(b), "PriceLevelStatistics")
        }
        Val::Evolving { book, changes, kind } => {
            // second version: same ids, some displayed quantities changed (kept within u64 sums)
            let mut book2 = book.clone();
            if book2.orders.is_empty() {
                return Ok(());
            }
            for (i, q) in changes {
                let n = book2.orders.len();
                let k = crate::gen::pick(*i, n);
                let others: u128 = book2.orders.iter().enumerate().filter(|(j, _)| *j != k).map(|(_, (_, s))| s.display as u128 + s.hidden as u128).sum();
                let room = (u64::MAX as u128 - others.min(u64::MAX as u128)) as u64;
                let h = book2.orders[k].1.hidden;
                book2.orders[k].1.display = (*q).min(room.saturating_sub(h));
            }
            let snap = |b: &BookSpec| {
                let mut s = PriceLevelSnapshot::new(b.price);
                s.orders = b.build_orders().into_iter().map(Arc::new).collect();
                s.refresh_aggregates();
                s
            };
            let f = |z: &PriceLevelSnapshot| (z.price, z.visible_quantity, z.hidden_quantity, z.order_count, z.orders.iter().map(|a| **a).collect::<Vec<_>>());
            match kind % 3 {
                0 => {
                    let (x1, x2) = (snap(book), snap(&book2));
                    let (_s1, y1) = json_rt(&x1)?; // stays alive while the second is decoded
                    let (s2, y2) = json_rt(&x2)?;
                    same("PriceLevelSnapshot (first version)", "", &f(&x1), &f(&y1))?;
                    same("PriceLevelSnapshot (decoded while an earlier decoded version of the same level is alive)", &s2, &f(&x2), &f(&y2))
                }
                1 => {
                    let p1 = PriceLevelSnapshotPackage::new(snap(book)).map_err(|e| e.to_string())?;
                    let p2 = PriceLevelSnapshotPackage::new(snap(&book2)).map_err(|e| e.to_string())?;
                    let d1 = PriceLevelSnapshotPackage::from_json(&p1.to_json().map_err(|e| e.to_string())?).map_err(|e| e.to_string())?;
                    let j2 = p2.to_json().map_err(|e| e.to_string())?;
                    let d2 = PriceLevelSnapshotPackage::from_json(&j2).map_err(|e| format!("cannot read own package: {e}"))?;
                    d1.validate().map_err(|e| format!("first package no longer validates: {e}"))?;
                    d2.validate().map_err(|e| format!("a package decoded while an earlier decoded package of the same level is alive does not validate ({j2}): {e}"))?;
                    same("PriceLevelSnapshotPackage (second version)", &j2, &f(&p2.snapshot), &f(&d2.snapshot))
                }
                _ => {
                    let (l1, l2) = (book.build_level(), book2.build_level());
                    let (_s1, y1) = json_rt(&l1)?;
                    let (s2, y2) = json_rt(&l2)?;
                    same("PriceLevel (first version)", "", &level_content(&l1), &level_content(&y1))?;
                    same("PriceLevel (decoded while an earlier decoded version is alive)", &s2, &level_content(&l2), &level_content(&y2))
                }
            }
        }
    }
}

fn sample_of(v: &Val, json_mode: bool) -> serde_json::Value {
    // show the encoding the library printed
    let enc: String = match v {
        Val::Order { spec, id, price } => {
            let x = spec.build(id.build(), *price);
            if json_mode { serde_json::to_string(&x).unwrap_or_default() } else { x.to_string() }
        }
        Val::Level(b) => {
            let x = b.build_level();
            if json_mode { serde_json::to_string(&x).unwrap_or_default() } else { x.to_string() }
        }
        Val::Tx(t) => {
            let x = t.build();
            if json_mode { serde_json::to_string(&x).unwrap_or_default() } else { x.to_string() }
        }
        Val::Update(u) => {
            let x = u.build();
            if json_mode { serde_json::to_string(&x).unwrap_or_default() } else { x.to_string() }
        }
        other => format!("{:?}", other),
    };
    let mut enc = enc;
    if enc.len() > 600 {
        let mut cut = 600;
        while !enc.is_char_boundary(cut) {
            cut -= 1;
        }
        enc.truncate(cut);
        enc.push_str("...");
    }
    json!({"type": v.type_name(), "encoding": enc, "round_trip": "equal"})
}

pub fn run(cfg: &RunCfg, json_mode: bool) -> Report {
    let (id, rule): (&'static str, &str) = if json_mode {
        ("C17", "values of every serde type (OrderType, OrderUpdate, OrderId, Side, TimeInForce, PegReferenceType, Transaction, TransactionList, MatchResult, PriceLevel, PriceLevelSnapshot with orders and arbitrary aggregate fields, PriceLevelSnapshotPackage, PriceLevelStatistics) from boundary-biased generators (0,1,79..81,2^32,2^53+-1,2^63,u64::MAX, i64::MIN/MAX, nil/max/random UUID and ULID, GTD at the limits, None amount, lists 0..8); oracle: serde_json::from_str(to_string(x)) == x field for field, and the same value again through from_reader, from_slice, to_value->from_value, the key-sorted text of the Value and pretty-printed text (levels: price + order set + aggregates); a package must keep version/checksum, still validate() and restore the same level. Since rounds 4-5: damaged copies are decoded between two decodings of the intact JSON; each value is also serialized into a writer that fails after a generated number of bytes and must serialize identically afterwards (to_string, to_vec); snapshots may list the same shared allocation twice; packages carrying arbitrary checksum text (quotes, backslashes, control characters, non-ASCII) and other versions must survive to_json / from_json and serde. Non-trivial = value with an integer > 2^53 or from the boundary set, a GTD, a ULID, a None amount, or >=2 list elements/orders; distinct = hash of the value.")
    } else {
        ("C16", "values of every text-codec type (OrderType, OrderUpdate, OrderId, Side, TimeInForce, PegReferenceType, Transaction, TransactionList, MatchResult, PriceLevel, PriceLevelSnapshot summary, PriceLevelStatistics) from boundary-biased generators (same value space as C17); oracle: T::from_str(&x.to_string()) is Ok(y) with y == x field for field (level: price + order set + aggregates; snapshot summary: price + aggregates). Since rounds 4-5: decoding must be a function of the text alone - damaged copies of each encoding are fed to the same decoder between two decodings of the intact text on the same thread, and printing twice must give the same text; snapshots may list the same shared order allocation twice. Non-trivial = value with a boundary number, a GTD, a ULID, a None amount, or >=2 list elements/orders; distinct = hash of the value.")
    };
    let mut rep = Report::new(id, "exploration", rule);
    rep.assumptions = vec![
        "levels are generated with distinct order ids, order.price == level price and quantity sums within u64 (DESIGN §8)".into(),
    ];
    let n = cfg.cases(if json_mode { 600_000 } else { 1_000_000 }, if json_mode { 20_000_000 } else { 40_000_000 });
    rep.absorb(
        if json_mode { "codec_json" } else { "codec_text" },
        explore(cfg, id, n, val, move |v: &Val, st| {
            st.count(&format!("type/{}", v.type_name()));
            let nt = nontrivial(v, json_mode);
            if nt && st.nontrivial(hash_of(v)) && st.want_sample() {
                st.sample(sample_of(v, json_mode));
            }
            if json_mode {
                check_json(v)
            } else {
                check_text(v)
            }
        }),
    );
    rep
}

pub fn replay(v: &serde_json::Value, json_mode: bool) -> Result<(), String> {
    let val: Val = load_case(v)?;
    if json_mode {
        check_json(&val)
    } else {
        check_text(&val)
    }
}

#[allow(dead_code)]
pub fn queue_content(q: &OrderQueue) -> Vec<OrderType<()>> {
    let mut v: Vec<OrderType<()>> = q.to_vec().iter().map(|a| **a).collect();
    v.sort_by_key(|o| o.id().to_string());
    v
}
