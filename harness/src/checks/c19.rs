//! C19 — the exported order queue is a FIFO with lookup and removal by id.
//! Sequential model-based test of OrderQueue on its own.

use crate::gen::{self, pick, OrderGenCfg, Profile};
use crate::runner::*;
use crate::spec::*;
use pricelevel::{OrderId, OrderQueue, OrderType};
use proptest::prelude::*;
use serde::{Deserialize, Serialize};
use serde_json::json;
use std::collections::HashSet;
use std::str::FromStr;
use std::sync::Arc;

type Order = OrderType<()>;

#[derive(Clone, Copy, Debug, PartialEq, Eq, Hash, Serialize, Deserialize)]
pub enum Build {
    FromVec,
    From,
    Text,
    Json,
}

#[derive(Clone, Copy, Debug, PartialEq, Eq, Hash, Serialize, Deserialize)]
pub enum QOp {
    Push { slot: u16, spec: OrderSpec, price: u64 },
    Pop,
    Find(u16),
    Remove(u16),
    Len,
    IsEmpty,
    ToVec,
    /// rebuild the queue from its own listing / text / JSON
    Rebuild(Build),
    /// push and remove `n` orders under fresh reserved ids (leaves n dead tickets behind)
    Stale(u32),
    /// produce (and drop) a rendering of the queue: 0 Debug, 1 text form, 2 JSON, 3 JSON into a
    /// writer that fails after `limit` bytes, 4 serde_json::Value. None of them is a queue operation.
    Render(u8, u16),
    /// push again the very allocation (`Arc`) that an earlier remove(id) handed back
    Repush(u16),
}

#[derive(Clone, Debug, PartialEq, Eq, Hash, Serialize, Deserialize)]
pub struct QCase {
    pub pool: Vec<IdSpec>,
    pub ops: Vec<QOp>,
}

fn qcase(max_len: usize) -> BoxedStrategy<QCase> {
    let spec = prop_oneof![
        3 => gen::order_spec(OrderGenCfg::all_types(Profile::Small, true)),
        1 => gen::order_spec(OrderGenCfg::all_types(Profile::Boundary, true)),
    ];
    let op = prop_oneof![
        8 => (any::<u16>(), spec, prop_oneof![0u64..1000, gen::boundary_u64()]).prop_map(|(slot, spec, price)| QOp::Push { slot, spec, price }),
        6 => Just(QOp::Pop),
        3 => any::<u16>().prop_map(QOp::Find),
        4 => any::<u16>().prop_map(QOp::Remove),
        1 => Just(QOp::Len),
        1 => Just(QOp::IsEmpty),
        2 => Just(QOp::ToVec),
        2 => proptest::sample::select(vec![Build::FromVec, Build::From, Build::Text, Build::Json]).prop_map(QOp::Rebuild),
        1 => gen::size_class(17).prop_map(QOp::Stale),
        3 => (0u8..8, any::<u16>()).prop_map(|(k, l)| QOp::Render(k, l)),
        2 => any::<u16>().prop_map(QOp::Repush),
    ];
    (gen::id_pool(3, 8), proptest::collection::vec(op, 0..=max_len))
        .prop_map(|(pool, ops)| QCase { pool, ops })
        .boxed()
}

pub struct Outcome {
    pub kf_hits: u64,
    pub nontrivial: bool,
}

pub fn eval(c: &QCase, st: &mut Stats, excuse_kf: bool) -> Result<Outcome, String> {
    let pool: Vec<OrderId> = c.pool.iter().map(|s| s.build()).collect();
    let mut q = OrderQueue::new();
    // model: queued orders in push order
    let mut model: Vec<Order> = Vec::new();
    // ids whose ticket may still be in the queue although the order was removed by id
    let mut stale: HashSet<OrderId> = HashSet::new();
    // the queue's documented ticket FIFO (order_queue.rs: every push queues the id, remove(id)
    // leaves the ticket, pop drops tickets of ids that are not queued), tracked exactly: the known
    // finding KF-C19-1 excuses a pop only if it is the one this FIFO yields
    let mut tickets: std::collections::VecDeque<OrderId> = std::collections::VecDeque::new();
    // handles given back by remove(id), for re-pushing the very same allocation
    let mut handed_back: Vec<Arc<Order>> = Vec::new();
    let mut kf_hits = 0u64;
    let mut removed_then_pop = false;
    let mut had_remove = false;
    let mut repush = false;
    let mut ever: HashSet<OrderId> = HashSet::new();
    let mut bulk: u64 = 0;
    let sorted = |v: &[Order]| {
        let mut v = v.to_vec();
        v.sort_by_key(|o| o.id().to_string());
        v
    };
    for (step, op) in c.ops.iter().enumerate() {
        let fail = |m: String| Err(format!("step {}: {:?}: {}", step + 1, op, m));
        match op {
            QOp::Push { slot, spec, price } => {
                // ids unique among queued orders: next free pool id
                let n = pool.len();
                let start = pick(*slot, n);
                let id = (0..n).map(|k| pool[(start + k) % n]).find(|id| !model.iter().any(|o| o.id() == *id));
                let id = match id {
                    Some(i) => i,
                    None => continue,
                };
                let o = spec.build(id, *price);
                catch(|| q.push(Arc::new(o))).map_err(|m| format!("push panicked: {m}"))?;
                model.push(o);
                tickets.push_back(id);
                if !ever.insert(id) {
                    repush = true;
                }
                st.count("queue_op/push");
            }
            QOp::Pop => {
                let got = catch(|| q.pop()).map_err(|m| format!("pop panicked: {m}"))?.map(|a| *a);
                st.count("queue_op/pop");
                if had_remove {
                    removed_then_pop = true;
                }
                // what the ticket FIFO yields: the first ticket whose id is queued (consumed with
                // every ticket in front of it)
                let live: HashSet<IdKey> = model.iter().map(|o| id_key(o.id())).collect();
                let mut by_tickets: Option<OrderId> = None;
                while let Some(t) = tickets.pop_front() {
                    if live.contains(&id_key(t)) {
                        by_tickets = Some(t);
                        break;
                    }
                }
                match (got, model.first().copied()) {
                    (None, None) => {}
                    (Some(g), Some(f)) if g == f => {
                        model.remove(0);
                    }
                    (Some(g), Some(_)) => {
                        // known stale-ticket deviation: a re-pushed id whose earlier incarnation was
                        // removed by id is handed out ahead of older orders - and it is exactly the
                        // order the ticket FIFO yields
                        let pos = model.iter().position(|o| *o == g);
                        match pos {
                            Some(i) if excuse_kf && stale.contains(&g.id()) && by_tickets.map(id_key) == Some(id_key(g.id())) => {
                                kf_hits += 1;
                                model.remove(i);
                            }
                            Some(_) => return fail(format!("pop returned {} but the earliest pushed queued order is {}{}", brief(&g), brief(&model[0]), if stale.contains(&g.id()) { " (and the stale ticket of a removed id does not explain it)" } else { "" })),
                            None => return fail(format!("pop returned {} which is not queued", brief(&g))),
                        }
                    }
                    (Some(g), None) => return fail(format!("pop returned {} from an empty queue", brief(&g))),
                    (None, Some(f)) => return fail(format!("pop returned None although {} is queued", brief(&f))),
                }
            }
            QOp::Find(i) => {
                let id = pool[pick(*i, pool.len())];
                let got = catch(|| q.find(id)).map_err(|m| format!("find panicked: {m}"))?.map(|a| *a);
                let want = model.iter().find(|o| o.id() == id).copied();
                st.count("queue_op/find");
                if got != want {
                    return fail(format!("find({}) = {:?} but the queue holds {:?}", id, got.as_ref().map(brief), want.as_ref().map(brief)));
                }
            }
            QOp::Remove(i) => {
                let id = pool[pick(*i, pool.len())];
                let got_arc = catch(|| q.remove(id)).map_err(|m| format!("remove panicked: {m}"))?;
                let got = got_arc.as_ref().map(|a| **a);
                if let Some(a) = got_arc {
                    if handed_back.len() < 64 {
                        handed_back.push(a);
                    }
                }
                let pos = model.iter().position(|o| o.id() == id);
                let want = pos.map(|p| model[p]);
                st.count("queue_op/remove");
                if got != want {
                    return fail(format!("remove({}) = {:?} but the queue holds {:?}", id, got.as_ref().map(brief), want.as_ref().map(brief)));
                }
                if let Some(p) = pos {
                    model.remove(p);
                    stale.insert(id);
                    had_remove = true;
                }
            }
            QOp::Len => {
                let n = q.len();
                if n != model.len() {
                    return fail(format!("len() = {} but {} orders are queued", n, model.len()));
                }
            }
            QOp::IsEmpty => {
                let e = q.is_empty();
                if e != model.is_empty() {
                    return fail(format!("is_empty() = {} but {} orders are queued", e, model.len()));
                }
            }
            QOp::ToVec => {
                let v: Vec<Order> = q.to_vec().iter().map(|a| **a).collect();
                if sorted(&v) != sorted(&model) {
                    return fail(format!(
                        "to_vec() lists [{}] but the queued orders are [{}]",
                        v.iter().map(brief).collect::<Vec<_>>().join(", "),
                        model.iter().map(brief).collect::<Vec<_>>().join(", ")
                    ));
                }
            }
            QOp::Repush(i) => {
                if handed_back.is_empty() {
                    continue;
                }
                let k = pick(*i, handed_back.len());
                let a = handed_back[k].clone();
                if model.iter().any(|o| o.id() == a.id()) {
                    continue;
                }
                handed_back.remove(k);
                let o = *a;
                catch(|| q.push(a)).map_err(|m| format!("push panicked: {m}"))?;
                model.push(o);
                tickets.push_back(o.id());
                repush = true;
                st.count("queue_op/repush_same_allocation");
            }
            QOp::Render(k, limit) => {
                st.count("queue_op/render");
                let r = catch(|| match k % 8 {
                    0 => {
                        let _ = format!("{:?}", q);
                    }
                    5 | 6 | 7 => {
                        // the text (or debug) form written into a sink that fails part-way
                        use std::fmt::Write as _;
                        use std::io::Write as _;
                        let full = q.to_string().len();
                        let lim = (*limit as usize * (full + 1)) >> 16;
                        match k % 8 {
                            5 => {
                                let _ = write!(FailingFmt { limit: lim }, "{}", q);
                            }
                            6 => {
                                let _ = write!(crate::checks::codec::FailingWriter { limit: lim }, "{}", q);
                            }
                            _ => {
                                let _ = write!(FailingFmt { limit: lim }, "{:?}", q);
                            }
                        }
                    }
                    1 => {
                        let _ = q.to_string();
                    }
                    2 => {
                        let _ = serde_json::to_string(&q);
                    }
                    3 => {
                        // (the limit is scaled to the size of the full encoding)
                        let full = serde_json::to_string(&q).map(|t| t.len()).unwrap_or(0);
                        let lim = (*limit as usize * (full + 1)) >> 16;
                        let _ = serde_json::to_writer(crate::checks::codec::FailingWriter { limit: lim }, &q);
                    }
                    _ => {
                        let _ = serde_json::to_value(&q);
                    }
                });
                if let Err(m) = r {
                    return fail(format!("rendering the queue panicked: {m}"));
                }
                // whatever was rendered before (completely or not), the text and JSON forms taken
                // now describe the queue as it is now
                let t = q.to_string();
                match catch(|| OrderQueue::from_str(&t)) {
                    Ok(Ok(x)) => {
                        let v: Vec<Order> = x.to_vec().iter().map(|a| **a).collect();
                        if sorted(&v) != sorted(&model) {
                            return fail(format!(
                                "after rendering, the queue's text form {:?} describes [{}] but [{}] are queued",
                                t,
                                v.iter().map(brief).collect::<Vec<_>>().join(", "),
                                model.iter().map(brief).collect::<Vec<_>>().join(", ")
                            ));
                        }
                    }
                    Ok(Err(e)) => return fail(format!("the queue cannot parse its own text {:?}: {}", t, e)),
                    Err(m) => return fail(format!("from_str panicked: {m}")),
                }
                let j = serde_json::to_string(&q).map_err(|e| format!("serialize queue: {e}"))?;
                let arr: Vec<Order> = serde_json::from_str(&j).map_err(|e| format!("queue JSON is not an order list: {e}"))?;
                if sorted(&arr) != sorted(&model) {
                    return fail(format!("after rendering, the queue's JSON form lists {} orders but {} are queued", arr.len(), model.len()));
                }
                st.count("queue_op/render_then_text_and_json_compared");
            }
            QOp::Stale(n) => {
                st.count("queue_op/stale_bulk");
                for _ in 0..*n {
                    bulk += 1;
                    let id = OrderId::from_u64(0x5741_1E00_0000_0000 + bulk);
                    let o = OrderType::Standard {
                        id,
                        price: 1,
                        quantity: 1,
                        side: pricelevel::Side::Buy,
                        timestamp: 3,
                        time_in_force: pricelevel::TimeInForce::Gtc,
                        extra_fields: (),
                    };
                    q.push(Arc::new(o));
                    tickets.push_back(id);
                    let got = q.remove(id).map(|a| *a);
                    if got != Some(o) {
                        return fail(format!("remove of the order just pushed returned {:?}", got.as_ref().map(brief)));
                    }
                }
                had_remove = true;
            }
            QOp::Rebuild(b) => {
                st.count(&format!("queue_op/rebuild_{:?}", b));
                let listing: Vec<Arc<Order>> = q.to_vec();
                let (new_q, input_order): (OrderQueue, Vec<Order>) = match b {
                    Build::FromVec => (OrderQueue::from_vec(listing.clone()), listing.iter().map(|a| **a).collect()),
                    Build::From => (OrderQueue::from(listing.clone()), listing.iter().map(|a| **a).collect()),
                    Build::Text => {
                        let t = q.to_string();
                        let nq = match catch(|| OrderQueue::from_str(&t)) {
                            Ok(Ok(x)) => x,
                            Ok(Err(e)) => return fail(format!("the queue cannot parse its own text {:?}: {}", t, e)),
                            Err(m) => return fail(format!("from_str panicked: {m}")),
                        };
                        (nq, listing.iter().map(|a| **a).collect())
                    }
                    Build::Json => {
                        let j = serde_json::to_string(&q).map_err(|e| format!("serialize queue: {e}"))?;
                        let nq: OrderQueue = match catch(|| serde_json::from_str(&j)) {
                            Ok(Ok(x)) => x,
                            Ok(Err(e)) => return fail(format!("the queue cannot read its own JSON {}: {}", j, e)),
                            Err(m) => return fail(format!("deserialize panicked: {m}")),
                        };
                        let arr: Vec<Order> = serde_json::from_str(&j).map_err(|e| format!("queue JSON is not an order list: {e}"))?;
                        (nq, arr)
                    }
                };
                let v: Vec<Order> = new_q.to_vec().iter().map(|a| **a).collect();
                if sorted(&v) != sorted(&model) || new_q.len() != model.len() {
                    return fail(format!(
                        "the rebuilt queue holds [{}] but the original held [{}]",
                        v.iter().map(brief).collect::<Vec<_>>().join(", "),
                        model.iter().map(brief).collect::<Vec<_>>().join(", ")
                    ));
                }
                if sorted(&input_order) != sorted(&model) {
                    return fail("the encoding does not list the queued orders".into());
                }
                // a queue built from a list pops in input order
                model = input_order;
                tickets = model.iter().map(|o| o.id()).collect();
                handed_back.clear();
                stale.clear();
                had_remove = false;
                q = new_q;
            }
        }
        // cheap invariants after every step
        if q.len() != model.len() || q.is_empty() != model.is_empty() {
            return Err(format!("step {}: after {:?}: len() = {}, is_empty() = {} but {} orders are queued", step + 1, op, q.len(), q.is_empty(), model.len()));
        }
    }
    // final drain: remaining orders come out in model order (modulo the known deviation)
    loop {
        let got = q.pop().map(|a| *a);
        let live: HashSet<IdKey> = model.iter().map(|o| id_key(o.id())).collect();
        let mut by_tickets: Option<OrderId> = None;
        while let Some(t) = tickets.pop_front() {
            if live.contains(&id_key(t)) {
                by_tickets = Some(t);
                break;
            }
        }
        match (got, model.first().copied()) {
            (None, None) => break,
            (Some(g), Some(f)) if g == f => {
                model.remove(0);
            }
            (Some(g), Some(_)) => match model.iter().position(|o| *o == g) {
                Some(i) if excuse_kf && stale.contains(&g.id()) && by_tickets.map(id_key) == Some(id_key(g.id())) => {
                    kf_hits += 1;
                    model.remove(i);
                }
                _ => return Err(format!("final drain: pop returned {} but the earliest pushed queued order is {}", brief(&g), brief(&model[0]))),
            },
            (g, m) => return Err(format!("final drain: pop returned {:?} but the model holds {:?}", g.as_ref().map(brief), m.as_ref().map(brief))),
        }
    }
    Ok(Outcome { kf_hits, nontrivial: removed_then_pop || repush })
}

pub fn witness_kf() -> QCase {
    // push A, push B, remove A, push A again, pop -> A (its stale ticket is first) although B is older
    let s = |q: u64, ts: u64| OrderSpec {
        kind: Kind::Standard,
        display: q,
        hidden: 0,
        buy: true,
        tif: Tif::Gtc,
        ts,
        threshold: 0,
        amount: None,
        auto: false,
        trail: 0,
        lastref: 0,
        offset: 0,
        peg: 0,
        own_price: None,
    };
    QCase {
        pool: vec![IdSpec::FromU64(1), IdSpec::FromU64(2)],
        ops: vec![
            QOp::Push { slot: 0, spec: s(5, 1), price: 10 },
            QOp::Push { slot: 40000, spec: s(6, 2), price: 10 },
            QOp::Remove(0),
            QOp::Push { slot: 0, spec: s(7, 3), price: 10 },
            QOp::Pop,
        ],
    }
}

pub fn run(cfg: &RunCfg) -> Report {
    let mut rep = Report::new(
        "C19",
        "exploration",
        "stateful sequences of push (next free id of a 3-8 id pool, so ids are unique among queued orders and re-pushed after pop/removal) / pop / find / remove / len / is_empty / to_vec on an OrderQueue, with rebuilds of the queue from its own listing (from_vec, From<Vec>), its text form and its JSON form; model = the queued orders in push order: pop returns the earliest pushed, find/remove exactly the queued order or None, len/is_empty exact after every step, to_vec the queued set, a rebuilt queue holds the same set and pops in input order; a final drain pops the rest in model order. The model follows the implementation only through the listed known finding KF-C19-1 (pop hands out a re-pushed id whose earlier incarnation was removed by id); any other disagreement is a violation. Since rounds 4-5: rendering the queue (Debug, text, JSON, JSON into a failing writer, Value) and re-pushing the very allocation that remove(id) handed back are generated operations; the queue's ticket FIFO is tracked exactly and KF-C19-1 excuses a pop only if it is the one that FIFO yields. Non-trivial = a sequence with a remove followed by a pop, or a re-push; distinct = hash of the sequence. Since round 6: the queue is also rendered (Display / Debug) into fmt::Write and io::Write sinks that fail part-way, and after every rendering operation the text and JSON forms taken next must decode to the queued orders.",
    );
    let known = crate::known::load(&cfg.root);
    let excuse = known.listed("C19", "KF-C19-1");
    let max_len = cfg.tier.pick(30, 80);
    let n = cfg.cases(600_000, 20_000_000);
    rep.absorb(
        "queue_history",
        explore(cfg, "C19", n, move || qcase(max_len), move |c: &QCase, st| {
            let o = eval(c, st, excuse)?;
            for _ in 0..o.kf_hits {
                st.known_hit("KF-C19-1");
            }
            if o.nontrivial && st.nontrivial(hash_of(c)) && st.want_sample() {
                st.sample(json!({"ops": c.ops.iter().map(|o| match o {
                    QOp::Push { slot, spec, .. } => format!("push(slot {}, {} d={} ts={})", slot, spec.kind.name(), spec.display, spec.ts),
                    other => format!("{:?}", other),
                }).collect::<Vec<_>>(), "known_finding_hits": o.kf_hits}));
            }
            Ok(())
        }),
    );
    for f in known.for_property("C19") {
        let hits = crate::known::read_witness(&cfg.root, f)
            .and_then(|v| load_case::<QCase>(&v).ok())
            .and_then(|c| eval(&c, &mut Stats::default(), true).ok())
            .map(|o| o.kf_hits)
            .unwrap_or(0);
        if hits > 0 {
            let total = rep.stats.known.get(&f.id).copied().unwrap_or(0);
            rep.known_lines.push((f.id.clone(), format!("{} [witness {} reproduces; {} such pops followed in this run]", f.what, f.witness, total)));
        }
    }
    rep
}

pub fn replay(cfg: &RunCfg, v: &serde_json::Value) -> Result<(), String> {
    let c: QCase = load_case(v)?;
    let known = crate::known::load(&cfg.root);
    let mut st = Stats::default();
    eval(&c, &mut st, known.listed("C19", "KF-C19-1")).map(|o| {
        if o.kf_hits > 0 {
            println!("known-finding KF-C19-1 signature hit {} times", o.kf_hits);
        }
    })
}

/// a `fmt::Write` sink that accepts `limit` bytes and then fails
pub struct FailingFmt {
    pub limit: usize,
}

impl std::fmt::Write for FailingFmt {
    fn write_str(&mut self, s: &str) -> std::fmt::Result {
        if s.len() > self.limit {
            self.limit = 0;
            return Err(std::fmt::Error);
        }
        self.limit -= s.len();
        Ok(())
    }
}
