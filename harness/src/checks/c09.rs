//! C09 — tampered, truncated or wrong-version snapshot packages are rejected.
//! Engine E4: level contents x an enumeration of faults on the serialized package.

use crate::checks::codec::{book_spec, level_content, BookSpec};
use crate::runner::*;
use pricelevel::{OrderId, PriceLevel, PriceLevelSnapshotPackage, UuidGenerator};
use proptest::prelude::*;
use serde::{Deserialize, Serialize};
use serde_json::{json, Value};
use sha2::{Digest, Sha256};

#[derive(Clone, Debug, Hash, PartialEq, Eq, Serialize, Deserialize)]
pub struct Content {
    pub book: BookSpec,
    /// a match applied before the snapshot (so partially filled / replenished orders occur)
    pub pre_match: Option<u64>,
    /// randomly chosen pairs of faults: (kind, position) x 2
    pub pairs: Vec<((u8, u16, u8), (u8, u16, u8))>,
}

fn content(max_orders: usize, pairs: usize) -> BoxedStrategy<Content> {
    (
        book_spec(max_orders),
        proptest::option::weighted(0.4, 1u64..400),
        proptest::collection::vec(((0u8..3, any::<u16>(), 0u8..12), (0u8..3, any::<u16>(), 0u8..12)), pairs..=pairs),
    )
        .prop_map(|(mut book, pre_match, pairs)| {
            // price x quantity must fit in 64 bits when a match is applied
            if pre_match.is_some() && book.price > 1 {
                let maxq = book
                    .orders
                    .iter()
                    .map(|(_, s)| s.display.saturating_add(s.hidden))
                    .max()
                    .unwrap_or(0);
                if maxq.checked_mul(book.price).is_none() {
                    book.price = 1;
                }
            }
            Content { book, pre_match, pairs }
        })
        .boxed()
}

fn large_content() -> BoxedStrategy<Content> {
    (40usize..=64).prop_flat_map(|n| content(n, 8)).prop_filter("large", |c| c.book.orders.len() >= 30).boxed()
}

const SUBST: [u8; 12] = [b'0', b'1', b'9', b'"', b',', b':', b'}', b']', b'a', b'f', b'Z', b' '];

fn single_fault(orig: &[u8], kind: u8, pos: u16, alt: u8) -> Option<Vec<u8>> {
    let n = orig.len();
    match kind % 3 {
        0 => {
            // substitution
            let i = ((pos as usize) * n) >> 16;
            let mut v = orig.to_vec();
            let c = SUBST[alt as usize % SUBST.len()];
            if v[i] == c {
                v[i] ^= 1;
            } else {
                v[i] = c;
            }
            Some(v)
        }
        1 => {
            let i = ((pos as usize) * n) >> 16;
            let mut v = orig.to_vec();
            v.remove(i);
            Some(v)
        }
        _ => {
            let i = ((pos as usize) * (n + 1)) >> 16;
            let mut v = orig.to_vec();
            v.insert(i, SUBST[alt as usize % SUBST.len()]);
            Some(v)
        }
    }
}

pub struct Judge {
    pub original: String,
    pub original_value: Value,
    pub content: crate::checks::codec::LevelContent,
    pub restores: u64,
    pub accepted_identical: u64,
    pub rejected: u64,
    pub changed_semantics: u64,
}

/// Feed one tampered text to every restore path; Err(reason) = a restore succeeded although
/// the package differs from what was snapshotted.
pub fn judge(j: &mut Judge, tampered: &[u8], what: &dyn Fn() -> String) -> Result<(), String> {
    let text = match std::str::from_utf8(tampered) {
        Ok(t) => t,
        Err(_) => return Ok(()), // not a &str: cannot be passed to the API
    };
    if text == j.original {
        return Ok(());
    }
    j.restores += 1;
    // does the fault change the parsed content?
    let parsed_value: Option<Value> = serde_json::from_str(text).ok();
    let semantic_change = match &parsed_value {
        Some(v) => *v != j.original_value,
        None => false,
    };
    if semantic_change {
        j.changed_semantics += 1;
    }
    let accept_ok = |level: &PriceLevel, canonical: Option<String>, path: &str| -> Result<(), String> {
        // success is only legitimate if the package still says exactly what was snapshotted
        match canonical {
            Some(c) if c == j.original => {}
            _ => {
                return Err(format!(
                    "{}: restore via {} succeeded although the package was changed; tampered text: {}",
                    what(),
                    path,
                    text
                ))
            }
        }
        if level_content(level) != j.content {
            return Err(format!(
                "{}: restore via {} succeeded with different content; tampered text: {}",
                what(),
                path,
                text
            ));
        }
        Ok(())
    };
    let pkg = catch(|| PriceLevelSnapshotPackage::from_json(text))
        .map_err(|m| format!("{}: from_json panicked: {m}", what()))?;
    let canonical = pkg.as_ref().ok().and_then(|p| p.to_json().ok());
    // path 1: from_snapshot_json
    match catch(|| PriceLevel::from_snapshot_json(text)).map_err(|m| format!("{}: from_snapshot_json panicked: {m}", what()))? {
        Ok(level) => {
            accept_ok(&level, canonical.clone(), "from_snapshot_json")?;
            j.accepted_identical += 1;
        }
        Err(_) => j.rejected += 1,
    }
    if let Ok(pkg) = pkg {
        // path 2: from_snapshot_package on the deserialized package
        let direct: Result<PriceLevelSnapshotPackage, _> = serde_json::from_str(text);
        if let Ok(p2) = direct {
            if let Ok(level) = catch(|| PriceLevel::from_snapshot_package(p2)).map_err(|m| format!("{}: from_snapshot_package panicked: {m}", what()))? {
                accept_ok(&level, canonical.clone(), "from_snapshot_package(serde_json::from_str)")?;
            }
        }
        // path 3: validate / into_snapshot
        if pkg.validate().is_ok() {
            if canonical.as_deref() != Some(j.original.as_str()) {
                return Err(format!("{}: validate() accepted a changed package; tampered text: {}", what(), text));
            }
        }
        if let Ok(snap) = pkg.clone().into_snapshot() {
            if canonical.as_deref() != Some(j.original.as_str()) {
                return Err(format!("{}: into_snapshot() accepted a changed package; tampered text: {}", what(), text));
            }
            let level = PriceLevel::from(&snap);
            if level_content(&level) != j.content {
                return Err(format!("{}: into_snapshot() yields different content", what()));
            }
        }
    }
    Ok(())
}

/// Enumerate the structural edits of a package lazily: `emit(name, edited)` is called for each
/// (nothing is collected: packages can be 100 KiB). `touch(i, n)` says for which of the n orders
/// the per-order edits are produced. Returns the number of edits, or the first error of `emit`.
fn structural_edits(
    orig: &Value,
    touch: &dyn Fn(usize, usize) -> bool,
    emit: &mut dyn FnMut(&str, &Value) -> Result<(), String>,
) -> Result<usize, String> {
    let count = std::cell::Cell::new(0usize);
    let err: std::cell::RefCell<Option<String>> = std::cell::RefCell::new(None);
    let emit = std::cell::RefCell::new(emit);
    let push = |name: String, f: &dyn Fn(&mut Value)| {
        if err.borrow().is_some() {
            return;
        }
        let mut v = orig.clone();
        f(&mut v);
        if v != *orig {
            count.set(count.get() + 1);
            if let Err(e) = (emit.borrow_mut())(&name, &v) {
                *err.borrow_mut() = Some(e);
            }
        }
    };
    // version
    for nv in [0u64, 2, 4294967295] {
        push(format!("version := {nv}"), &|v| v["version"] = json!(nv));
    }
    // checksum
    push("checksum upper-cased".into(), &|v| {
        let c = v["checksum"].as_str().unwrap_or("").to_uppercase();
        v["checksum"] = json!(c)
    });
    push("checksum truncated by one".into(), &|v| {
        let c = v["checksum"].as_str().unwrap_or("").to_string();
        v["checksum"] = json!(c[..c.len().saturating_sub(1)].to_string())
    });
    push("checksum truncated to 8".into(), &|v| {
        let c = v["checksum"].as_str().unwrap_or("").to_string();
        v["checksum"] = json!(c[..c.len().min(8)].to_string())
    });
    push("checksum emptied".into(), &|v| v["checksum"] = json!(""));
    push("checksum extended".into(), &|v| {
        let c = v["checksum"].as_str().unwrap_or("").to_string();
        v["checksum"] = json!(format!("{c}0"))
    });
    push("checksum zeroed".into(), &|v| v["checksum"] = json!("0".repeat(64)));
    // price and aggregates
    for field in ["price", "visible_quantity", "hidden_quantity", "order_count"] {
        for (nm, f) in [
            ("+1", (|x: u64| x.wrapping_add(1)) as fn(u64) -> u64),
            ("-1", |x: u64| x.wrapping_sub(1)),
            ("0", |_| 0),
            ("max", |_| u64::MAX),
        ] {
            push(format!("snapshot.{field} {nm}"), &|v| {
                let x = v["snapshot"][field].as_u64().unwrap_or(0);
                v["snapshot"][field] = json!(f(x));
            });
        }
    }
    // orders: splice a well-formed foreign order in at every position, with the stored figures
    // left alone and with the stored count / aggregates adjusted to match
    let donor = json!({"Standard": {"id": "00000000-0000-0000-0000-0000000d0a0e", "price": orig["snapshot"]["price"].clone(), "quantity": 7, "side": "BUY", "timestamp": 5, "time_in_force": "GTC", "extra_fields": null}});
    let n0 = orig["snapshot"]["orders"].as_array().map(|a| a.len()).unwrap_or(0);
    for i in (0..=n0).filter(|i| touch(*i, n0 + 1)) {
        let d = donor.clone();
        push(format!("insert a foreign order at position {i}"), &|v| {
            v["snapshot"]["orders"].as_array_mut().unwrap().insert(i, d.clone());
        });
        let d = donor.clone();
        push(format!("insert a foreign order at position {i} and adjust count / visible"), &|v| {
            v["snapshot"]["orders"].as_array_mut().unwrap().insert(i, d.clone());
            let c = v["snapshot"]["order_count"].as_u64().unwrap_or(0);
            v["snapshot"]["order_count"] = json!(c + 1);
            let q = v["snapshot"]["visible_quantity"].as_u64().unwrap_or(0);
            v["snapshot"]["visible_quantity"] = json!(q.wrapping_add(7));
        });
    }
    let n = orig["snapshot"]["orders"].as_array().map(|a| a.len()).unwrap_or(0);
    for i in (0..n).filter(|i| touch(*i, n)) {
        push(format!("drop order {i}"), &|v| {
            v["snapshot"]["orders"].as_array_mut().unwrap().remove(i);
        });
        push(format!("duplicate order {i}"), &|v| {
            let a = v["snapshot"]["orders"].as_array_mut().unwrap();
            let o = a[i].clone();
            a.insert(i, o);
        });
        if i + 1 < n {
            push(format!("swap orders {i} and {}", i + 1), &|v| {
                v["snapshot"]["orders"].as_array_mut().unwrap().swap(i, i + 1);
            });
        }
        // every field of the order
        let tag = orig["snapshot"]["orders"][i].as_object().and_then(|m| m.keys().next().cloned()).unwrap_or_default();
        let fields: Vec<String> = orig["snapshot"]["orders"][i][&tag].as_object().map(|m| m.keys().cloned().collect()).unwrap_or_default();
        for f in fields {
            let cur = orig["snapshot"]["orders"][i][&tag][&f].clone();
            let alts: Vec<Value> = match &cur {
                Value::Number(x) => {
                    if let Some(u) = x.as_u64() {
                        vec![json!(u.wrapping_add(1)), json!(u.wrapping_sub(1)), json!(0), json!(u64::MAX)]
                    } else if let Some(i) = x.as_i64() {
                        vec![json!(i.wrapping_add(1)), json!(0), json!(i64::MAX)]
                    } else {
                        vec![]
                    }
                }
                Value::String(s) => match f.as_str() {
                    "side" => vec![json!(if s == "BUY" { "SELL" } else { "BUY" })],
                    "time_in_force" => vec![json!(if s == "GTC" { "DAY" } else { "GTC" }), json!({"GTD": 5})],
                    "id" => {
                        let mut v = vec![json!("00000000-0000-0000-0000-00000000beef"), json!("01ARZ3NDEKTSV4RRFFQ69G5FAV")];
                        // the same 128 bits written in the other id format (a different id)
                        if let Ok(id) = <pricelevel::OrderId as std::str::FromStr>::from_str(s) {
                            let bits = u128::from_be_bytes(id.as_bytes());
                            v.push(match id {
                                pricelevel::OrderId::Uuid(_) => json!(ulid::Ulid::from(bits).to_string()),
                                pricelevel::OrderId::Ulid(_) => json!(uuid::Uuid::from_u128(bits).to_string()),
                            });
                            // and other spellings of the same format where they exist
                            if let pricelevel::OrderId::Uuid(u) = id {
                                v.push(json!(u.simple().to_string()));
                                v.push(json!(u.to_string().to_uppercase()));
                            } else {
                                v.push(json!(s.to_lowercase()));
                            }
                        }
                        v
                    }
                    "reference_price_type" => vec![json!(if s == "BestBid" { "BestAsk" } else { "BestBid" })],
                    _ => vec![json!("x")],
                },
                Value::Bool(b) => vec![json!(!b)],
                Value::Null => vec![],
                Value::Object(_) => vec![json!("GTC"), json!({"GTD": 7})],
                _ => vec![],
            };
            for (k, a) in alts.into_iter().enumerate() {
                let (tag2, f2) = (tag.clone(), f.clone());
                push(format!("order {i}.{f} alt {k}"), &move |v| {
                    v["snapshot"]["orders"][i][&tag2][&f2] = a.clone();
                });
            }
        }
        // type tag among the variants with identical fields
        for other in ["Standard", "PostOnly", "MarketToLimit"] {
            if ["Standard", "PostOnly", "MarketToLimit"].contains(&tag.as_str()) && other != tag {
                let tag2 = tag.clone();
                push(format!("order {i} type {tag} -> {other}"), &move |v| {
                    let body = v["snapshot"]["orders"][i][&tag2].clone();
                    v["snapshot"]["orders"][i] = json!({ other: body });
                });
            }
        }
    }
    match err.into_inner() {
        Some(e) => Err(e),
        None => Ok(count.get()),
    }
}

/// Coordinated edits on the text of a package (each `emit` gets one tampered text):
/// (1) re-splitting the digits of two adjacent numeric fields (`"price":100,"visible_quantity":50`
///     -> `1005` / `0`, `10` / `050` is not a number and is skipped, ...): the concatenation of
///     the values stays the same, only the field boundary moves;
/// (2) "wrapping": the original snapshot body kept verbatim under another (unknown, duplicate or
///     nested) key next to an edited `snapshot`, in every order of the keys.
fn coordinated_edits(original: &str, max_pairs: usize, emit: &mut dyn FnMut(&str, &str) -> Result<(), String>) -> Result<usize, String> {
    let b = original.as_bytes();
    let mut count = 0usize;
    // ---- (1) adjacent numeric fields: ...:<digits>,"<key>":<digits>...
    let mut runs: Vec<(usize, usize)> = Vec::new(); // digit runs that are whole JSON numbers (after ':')
    let mut i = 0;
    while i < b.len() {
        if b[i].is_ascii_digit() && i > 0 && b[i - 1] == b':' {
            let a = i;
            while i < b.len() && b[i].is_ascii_digit() {
                i += 1;
            }
            if i < b.len() && (b[i] == b',' || b[i] == b'}') {
                runs.push((a, i));
            }
        } else {
            i += 1;
        }
    }
    let valid = |d: &str| !d.is_empty() && (d == "0" || !d.starts_with('0')) && d.parse::<u64>().is_ok();
    let mut pairs: Vec<((usize, usize), (usize, usize))> = Vec::new();
    for w in runs.windows(2) {
        let between = &original[w[0].1..w[1].0];
        // only `,"key":` between them (same object, adjacent fields)
        if between.starts_with(",\"") && between.ends_with("\":") && !between[2..between.len() - 2].contains('"') {
            pairs.push((w[0], w[1]));
        }
    }
    let np = pairs.len();
    for (k, (ra, rb)) in pairs.into_iter().enumerate() {
        if np > max_pairs && !(k < max_pairs / 2 || k + max_pairs / 2 >= np) {
            continue;
        }
        let cat = format!("{}{}", &original[ra.0..ra.1], &original[rb.0..rb.1]);
        let la = ra.1 - ra.0;
        for cut in 1..cat.len() {
            if cut == la {
                continue;
            }
            let (x, y) = cat.split_at(cut);
            if valid(x) && valid(y) {
                let t = format!("{}{}{}{}{}", &original[..ra.0], x, &original[ra.1..rb.0], y, &original[rb.1..]);
                count += 1;
                emit(&format!("digits of two adjacent numbers re-split: {}|{} -> {}|{}", &original[ra.0..ra.1], &original[rb.0..rb.1], x, y), &t)?;
            }
        }
    }
    // ---- (2) wrapping
    let (sa, sb) = match (original.find("\"snapshot\":"), original.rfind(",\"checksum\":")) {
        (Some(a), Some(b2)) if a + 11 < b2 => (a + 11, b2),
        _ => return Ok(count),
    };
    let head = &original[..sa - 11]; // `{"version":1,`
    let body = &original[sa..sb];
    let tail = &original[sb + 1..original.len() - 1]; // `"checksum":"..."`
    // edited bodies: the first and the last number of the body changed in their last digit
    let mut edited: Vec<String> = Vec::new();
    let body_runs: Vec<(usize, usize)> = runs.iter().filter(|r| r.0 >= sa && r.1 <= sb).map(|r| (r.0 - sa, r.1 - sa)).collect();
    for r in [body_runs.first(), body_runs.last()].into_iter().flatten() {
        let mut e = body.as_bytes().to_vec();
        let last = r.1 - 1;
        e[last] = if e[last] == b'9' { b'8' } else { e[last] + 1 };
        let e = String::from_utf8(e).unwrap();
        if !edited.contains(&e) {
            edited.push(e);
        }
    }
    for e in &edited {
        let variants: Vec<(&str, String)> = vec![
            ("original body kept under an unknown key before the edited snapshot", format!("{head}\"previous\":{body},\"snapshot\":{e},{tail}}}")),
            ("original body kept under an unknown key after the edited snapshot", format!("{head}\"snapshot\":{e},\"previous\":{body},{tail}}}")),
            ("original body kept under an unknown key at the end", format!("{head}\"snapshot\":{e},{tail},\"previous\":{body}}}")),
            ("original body kept under an unknown key at the front", format!("{{\"previous\":{body},{}\"snapshot\":{e},{tail}}}", &head[1..])),
            ("duplicate snapshot key, original first", format!("{head}\"snapshot\":{body},\"snapshot\":{e},{tail}}}")),
            ("duplicate snapshot key, edited first", format!("{head}\"snapshot\":{e},\"snapshot\":{body},{tail}}}")),
            ("edited snapshot with the original nested inside it", format!("{head}\"snapshot\":{},\"previous\":{body}}},{tail}}}", &e[..e.len() - 1])),
            ("whole original package nested under an unknown key of an edited one", format!("{head}\"snapshot\":{e},{tail},\"backup\":{original}}}")),
            ("whole original package nested under an unknown key in front of the edited snapshot", format!("{head}\"backup\":{original},\"snapshot\":{e},{tail}}}")),
            ("whole original package nested under an unknown key at the very front", format!("{{\"backup\":{original},{}\"snapshot\":{e},{tail}}}", &head[1..])),
            ("original snapshot and checksum members nested under an unknown key in front", format!("{head}\"previous\":{{\"snapshot\":{body},{tail}}},\"snapshot\":{e},{tail}}}")),
            ("original package as a string value in front", format!("{head}\"note\":{},\"snapshot\":{e},{tail}}}", serde_json::to_string(original).unwrap())),
            ("the edited snapshot body alone, without version and checksum", e.clone()),
            ("the edited snapshot body with the version only", format!("{head}\"snapshot\":{e}}}")),
            ("the edited snapshot body with the checksum only", format!("{{\"snapshot\":{e},{tail}}}")),
            ("the edited snapshot's members spliced into the envelope", format!("{head}{},{tail}}}", &e[1..e.len() - 1])),
            ("checksum and snapshot swapped, original body under an unknown key", format!("{head}{tail},\"previous\":{body},\"snapshot\":{e}}}")),
        ];
        for (name, t) in variants {
            count += 1;
            emit(name, &t)?;
        }
    }
    Ok(count)
}

pub fn eval(c: &Content, st: &mut Stats, deep: bool) -> Result<(), String> {
    let large = c.book.orders.len() > 12;
    let level = c.book.build_level();
    if let Some(q) = c.pre_match {
        let gen = UuidGenerator::new(uuid::Uuid::nil());
        let _ = level.match_order(q, OrderId::from_u64(77), &gen);
    }
    let original = level.snapshot_to_json().map_err(|e| format!("snapshot_to_json failed: {e}"))?;
    let original_value: Value = serde_json::from_str(&original).map_err(|e| format!("own package is not JSON: {e}"))?;
    // sanity: the untouched package restores
    let back = PriceLevel::from_snapshot_json(&original).map_err(|e| format!("the untouched package is rejected: {e}"))?;
    let content = level_content(&level);
    if level_content(&back) != content {
        return Err("the untouched package restores different content".into());
    }
    let mut j = Judge {
        original: original.clone(),
        original_value: original_value.clone(),
        content,
        restores: 0,
        accepted_identical: 0,
        rejected: 0,
        changed_semantics: 0,
    };
    let ob = original.as_bytes();
    let n = ob.len();
    st.count(&format!("package_size/{:>4}KiB+", (n / 16384) * 16));
    let h = hash_of(c);
    // large packages: every offset near a 512-byte boundary (block-buffered hashing / IO) and at
    // both ends, not every offset
    let huge = c.book.orders.len() > 200;
    let wanted = |i: usize| {
        if huge {
            // tens of KiB: offsets within 64 bytes of every 4096-byte boundary and at both ends
            i < 64 || i + 64 >= n || i % 8192 < 40 || i % 8192 >= 8192 - 40
        } else {
            !large || i < 200 || i + 200 >= n || i % 512 < 48 || i % 512 >= 512 - 48
        }
    };
    // every proper prefix (torn write)
    for k in (0..n).filter(|k| wanted(*k)) {
        judge(&mut j, &ob[..k], &|| format!("truncation to {k} of {n} bytes"))?;
    }
    st.add("faults/prefix", n as u64);
    // every single-byte substitution / deletion / insertion at every offset
    // large packages (tens of orders, > 8 KiB): bit flip, digit +-1 and deletion at every offset,
    // insertions and palette substitutions only with two bytes
    let alts: &[u8] = if huge { &SUBST[..0] } else if large { &SUBST[..2] } else if deep { &SUBST } else { &SUBST[..6] };
    for i in (0..n).filter(|i| wanted(*i)) {
        let mut v = ob.to_vec();
        // bit flip, digit +-1, then the palette
        v[i] = ob[i] ^ 1;
        judge(&mut j, &v, &|| format!("byte {i} bit-flipped"))?;
        if ob[i].is_ascii_digit() {
            v[i] = if ob[i] == b'9' { b'0' } else { ob[i] + 1 };
            judge(&mut j, &v, &|| format!("digit at byte {i} +1"))?;
            v[i] = if ob[i] == b'0' { b'9' } else { ob[i] - 1 };
            judge(&mut j, &v, &|| format!("digit at byte {i} -1"))?;
        }
        for &a in alts {
            if a != ob[i] {
                v[i] = a;
                judge(&mut j, &v, &|| format!("byte {i} replaced by {:?}", a as char))?;
            }
        }
        if !huge {
            let mut d = ob.to_vec();
            d.remove(i);
            judge(&mut j, &d, &|| format!("byte {i} deleted"))?;
        }
    }
    st.add("faults/substitution_deletion_offsets", n as u64);
    for i in (0..=n).filter(|i| wanted(*i)) {
        for &a in alts {
            let mut v = ob.to_vec();
            v.insert(i, a);
            judge(&mut j, &v, &|| format!("{:?} inserted at byte {i}", a as char))?;
        }
    }
    st.add("faults/insertion_offsets", n as u64 + 1);
    // structural edits (for large packages the per-order edits go to a spread of 8 orders)
    let touch = |i: usize, m: usize| !large || i < 2 || i + 2 >= m || (m >= 8 && i % (m / 4).max(1) == 0);
    let n_edits = {
        let j = std::cell::RefCell::new(&mut j);
        let mut k = 0usize;
        structural_edits(&original_value, &touch, &mut |name, v| {
            let t = serde_json::to_string(v).unwrap();
            judge(&mut j.borrow_mut(), t.as_bytes(), &|| format!("structural edit [{name}]"))?;
            // two cooperating faults: the same edit with the checksum emptied / shortened
            k += 1;
            if k <= 40 {
                for ck in [false, true] {
                    let mut v2 = v.clone();
                    let c0 = original_value["checksum"].as_str().unwrap_or("");
                    v2["checksum"] = if ck { json!(c0[..c0.len().saturating_sub(1)].to_string()) } else { json!("") };
                    let t = serde_json::to_string(&v2).unwrap();
                    judge(&mut j.borrow_mut(), t.as_bytes(), &|| format!("structural edit [{name}] + checksum shortened"))?;
                }
            }
            Ok(())
        })?
    };
    st.add("faults/structural", n_edits as u64);
    // coordinated text-level edits: digits moved between adjacent numbers, wrapping
    let n_coord = coordinated_edits(&original, if large { 24 } else { 400 }, &mut |name, t| judge(&mut j, t.as_bytes(), &|| format!("coordinated edit [{name}]")))?;
    st.add("faults/coordinated", n_coord as u64);
    // pairs of faults
    for (a, b) in &c.pairs {
        if let Some(v1) = single_fault(ob, a.0, a.1, a.2) {
            if let Some(v2) = single_fault(&v1, b.0, b.1, b.2) {
                judge(&mut j, &v2, &|| format!("fault pair {:?} then {:?}", a, b))?;
            }
        }
    }
    st.add("faults/pairs", c.pairs.len() as u64 + 80);
    // positive control: a correctly re-signed edited package restores to the edited content
    if let Some(p) = original_value["snapshot"]["price"].as_u64() {
        let mut v = original_value.clone();
        v["snapshot"]["price"] = json!(p ^ 1);
        if let Ok(pkg) = serde_json::from_value::<PriceLevelSnapshotPackage>(v.clone()) {
            if let Ok(payload) = serde_json::to_vec(&pkg.snapshot) {
                let mut hasher = Sha256::new();
                hasher.update(payload);
                v["checksum"] = json!(format!("{:x}", hasher.finalize()));
                match PriceLevel::from_snapshot_json(&serde_json::to_string(&v).unwrap()) {
                    Ok(l) if l.price() == p ^ 1 => st.count("control/resigned_package_restores_edited_content"),
                    _ => st.count("control/resigned_package_rejected"),
                }
            }
        }
    }
    st.add("restores", j.restores);
    st.add("rejected", j.rejected);
    st.add("accepted_semantically_identical", j.accepted_identical);
    st.add("faults_changing_parsed_content", j.changed_semantics);
    // non-trivial cases = faults that change the parsed content, version or checksum; they are
    // distinct per (content, fault) by construction, so count them by hashing (content, k)
    for k in 0..j.changed_semantics {
        st.nontrivial(h ^ splitmix(k));
    }
    if st.want_sample() {
        st.sample(json!({
            "package": if original.len() > 500 { format!("{}...", &original[..500]) } else { original.clone() },
            "bytes": n,
            "restores_attempted": j.restores,
            "rejected": j.rejected,
            "accepted_because_semantically_identical": j.accepted_identical,
            "faults_changing_parsed_content": j.changed_semantics,
        }));
    }
    Ok(())
}

pub fn run(cfg: &RunCfg) -> Report {
    let mut rep = Report::new(
        "C09",
        "fault_enumeration",
        "level contents (0-6 orders of all types, both id formats, boundary values, optionally after a match) serialized with snapshot_to_json; for each content (0-6 orders) EVERY proper prefix, EVERY single-byte substitution (bit flip, digit +-1, palette) and deletion at every offset, insertion of each palette byte at every offset, a catalogue of structural edits on the parsed JSON (version, checksum case/length, price, each aggregate, drop/duplicate/swap orders, every field of every order, type tag), pairs of faults and structural-edit+checksum-shortening pairs; plus a few large packages (30-64 orders, 8-16 KiB; and 520-780 orders, 100-150 KiB) with the same faults at every offset near a 512-byte (8192-byte) boundary and at both ends; each tampered text goes through from_snapshot_json, from_snapshot_package(serde_json::from_str) and from_json->validate/into_snapshot. Oracle: Err, or Ok only if the tampered package re-serializes byte-identically to the original (i.e. it is semantically the same package) and the restored content equals the snapshotted level. Since rounds 4-5: coordinated text-level edits - every re-split of the digits of two adjacent numeric fields; wrapping (the original body or package kept under unknown / duplicate / nested keys around an edited snapshot); unwrapped texts (an edited body alone, with half an envelope, spliced into the envelope). Non-trivial = fault after which the text still parses as JSON but to a different value (content, version or checksum changed); counted per (content, fault).",
    );
    rep.assumptions = vec![
        "SHA-256 collision resistance".into(),
        "canonicalisation of an accepted package uses the library's own serializer (its round trip is C17's subject)".into(),
    ];
    let deep = cfg.tier == Tier::Thorough;
    let n = cfg.cases(480, 16_000);
    rep.absorb(
        "tamper",
        explore(cfg, "C09", n, move || content(6, 24), move |c: &Content, st| eval(c, st, deep)),
    );
    if !rep.failed() {
        // a few large levels (40-90 orders: packages of 8-25 KiB, beyond any 4/8/16 KiB block size)
        let n = cfg.cases(16, 512);
        rep.absorb(
            "tamper",
            explore(cfg, "C09-large", n, move || large_content(), move |c: &Content, st| eval(c, st, deep)),
        );
    }
    // an evaluation is one tampered package pushed through the restore paths
    let contents = rep.stats.evaluations;
    rep.extra.insert("contents".into(), json!(contents));
    rep.stats.evaluations = rep.stats.hist.get("restores").copied().unwrap_or(0).max(contents);
    if !rep.failed() {
        // and very large ones (400-520 orders: 70-100 KiB, beyond a 64 KiB block)
        let n = cfg.cases_few(12, 160);
        rep.absorb(
            "tamper",
            explore(cfg, "C09-huge", n, move || (700usize..=780).prop_flat_map(|n| content(n, 4)).prop_filter("huge", |c| c.book.orders.len() >= 520).boxed(), move |c: &Content, st| eval(c, st, deep)),
        );
    }
    rep.exhaustive = Some(false);
    rep.extra.insert(
        "exhaustive_part".into(),
        json!("per generated content, the single-fault space (prefixes, per-offset substitutions/deletions/insertions with the stated palette) is enumerated completely; contents and fault pairs are sampled"),
    );
    rep
}

pub fn replay(v: &Value) -> Result<(), String> {
    let c: Content = load_case(v)?;
    let mut st = Stats::default();
    eval(&c, &mut st, true)
}
