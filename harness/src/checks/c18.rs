//! C18 — parsers are total. Engine E6: mutated valid encodings, token soup and arbitrary
//! Unicode fed to every FromStr and JSON entry point; oracle: returns Ok or Err, never panics.

use crate::checks::codec::{self, Val};
use crate::runner::*;
use crate::spec::peg_of;
use pricelevel::{
    MatchResult, OrderId, OrderQueue, OrderType, OrderUpdate, PegReferenceType, PriceLevel,
    PriceLevelData, PriceLevelSnapshot, PriceLevelSnapshotPackage, PriceLevelStatistics, Side,
    TimeInForce, Transaction, TransactionList, UuidGenerator,
};
use proptest::prelude::*;
use serde::{Deserialize, Serialize};
use serde_json::json;
use std::str::FromStr;
use std::sync::Arc;

pub struct EntryPoint {
    pub name: &'static str,
    pub json: bool,
    /// prefix a text input must have to get past the first format test
    pub prefix: &'static str,
    pub parse: fn(&str) -> bool,
}

macro_rules! text_entry {
    ($name:expr, $prefix:expr, $t:ty) => {
        EntryPoint { name: $name, json: false, prefix: $prefix, parse: |s| <$t>::from_str(s).is_ok() }
    };
}
macro_rules! json_entry {
    ($name:expr, $t:ty) => {
        EntryPoint { name: $name, json: true, prefix: "", parse: |s| serde_json::from_str::<$t>(s).is_ok() }
    };
}

pub fn entry_points() -> Vec<EntryPoint> {
    vec![
        text_entry!("OrderType::from_str", "", OrderType<()>),
        text_entry!("OrderUpdate::from_str", "", OrderUpdate),
        text_entry!("OrderId::from_str", "", OrderId),
        text_entry!("Side::from_str", "", Side),
        text_entry!("TimeInForce::from_str", "", TimeInForce),
        text_entry!("PegReferenceType::from_str", "", PegReferenceType),
        text_entry!("Transaction::from_str", "Transaction:", Transaction),
        text_entry!("TransactionList::from_str", "Transactions:[", TransactionList),
        text_entry!("MatchResult::from_str", "MatchResult:", MatchResult),
        text_entry!("PriceLevel::from_str", "PriceLevel:", PriceLevel),
        text_entry!("OrderQueue::from_str", "OrderQueue:orders=[", OrderQueue),
        text_entry!("PriceLevelSnapshot::from_str", "PriceLevelSnapshot:", PriceLevelSnapshot),
        text_entry!("PriceLevelStatistics::from_str", "PriceLevelStatistics:", PriceLevelStatistics),
        json_entry!("json OrderType", OrderType<()>),
        json_entry!("json OrderUpdate", OrderUpdate),
        json_entry!("json OrderId", OrderId),
        json_entry!("json Side", Side),
        json_entry!("json TimeInForce", TimeInForce),
        json_entry!("json PegReferenceType", PegReferenceType),
        json_entry!("json Transaction", Transaction),
        json_entry!("json TransactionList", TransactionList),
        json_entry!("json MatchResult", MatchResult),
        json_entry!("json PriceLevel", PriceLevel),
        json_entry!("json PriceLevelData", PriceLevelData),
        json_entry!("json OrderQueue", OrderQueue),
        json_entry!("json PriceLevelSnapshot", PriceLevelSnapshot),
        json_entry!("json PriceLevelSnapshotPackage", PriceLevelSnapshotPackage),
        json_entry!("json PriceLevelStatistics", PriceLevelStatistics),
        json_entry!("json UuidGenerator", UuidGenerator),
        EntryPoint { name: "PriceLevelSnapshotPackage::from_json", json: true, prefix: "", parse: |s| PriceLevelSnapshotPackage::from_json(s).is_ok() },
        EntryPoint { name: "PriceLevel::from_snapshot_json", json: true, prefix: "", parse: |s| PriceLevel::from_snapshot_json(s).is_ok() },
    ]
}

/// valid encodings of a value: (text, json, index of the matching text entry, of the json entry)
pub fn encodings(v: &Val) -> (Option<String>, String, usize, usize) {
    fn both<T: std::fmt::Display + Serialize>(x: &T) -> (Option<String>, String) {
        (Some(x.to_string()), serde_json::to_string(x).unwrap_or_default())
    }
    match v {
        Val::Order { spec, id, price } => {
            let (t, j) = both(&spec.build(id.build(), *price));
            (t, j, 0, 13)
        }
        Val::Update(u) => {
            let (t, j) = both(&u.build());
            (t, j, 1, 14)
        }
        Val::Id(i) => {
            let (t, j) = both(&i.build());
            (t, j, 2, 15)
        }
        Val::Side(b) => {
            let (t, j) = both(&if *b { Side::Buy } else { Side::Sell });
            (t, j, 3, 16)
        }
        Val::Tif(t0) => {
            let x: TimeInForce = t0.build();
            let (t, j) = both(&x);
            (t, j, 4, 17)
        }
        Val::Peg(p) => {
            let (t, j) = both(&peg_of(*p));
            (t, j, 5, 18)
        }
        Val::Tx(t0) => {
            let (t, j) = both(&t0.build());
            (t, j, 6, 19)
        }
        Val::TxList(l) => {
            let (t, j) = both(&TransactionList::from_vec(l.iter().map(|t| t.build()).collect()));
            (t, j, 7, 20)
        }
        Val::MatchRes { id, remaining, complete, txs, filled } => {
            let x = MatchResult {
                order_id: id.build(),
                transactions: TransactionList::from_vec(txs.iter().map(|t| t.build()).collect()),
                remaining_quantity: *remaining,
                is_complete: *complete,
                filled_order_ids: filled.iter().map(|i| i.build()).collect(),
            };
            let (t, j) = both(&x);
            (t, j, 8, 21)
        }
        Val::Level(b) => {
            let l = b.build_level();
            // alternate between the level and the queue text forms
            if b.orders.len() % 2 == 0 {
                let (t, j) = both(&l);
                (t, j, 9, 22)
            } else {
                let q = OrderQueue::from(b.build_orders().into_iter().map(Arc::new).collect::<Vec<_>>());
                let (t, j) = both(&q);
                (t, j, 10, 24)
            }
        }
        Val::Snapshot { book, vis, hid, count, .. } => {
            let x = PriceLevelSnapshot {
                price: book.price,
                visible_quantity: *vis,
                hidden_quantity: *hid,
                order_count: *count as usize,
                orders: book.build_orders().into_iter().map(Arc::new).collect(),
            };
            let (t, j) = both(&x);
            (t, j, 11, 25)
        }
        Val::Package(b) => {
            let j = b.build_level().snapshot_to_json().unwrap_or_default();
            (None, j, 30, 30)
        }
        Val::Evolving { book, .. } => {
            let j = book.build_level().snapshot_to_json().unwrap_or_default();
            (None, j, 30, 30)
        }
        Val::Stats(_) => {
            // reuse codec's construction through the text form of a fresh level's stats
            let l = PriceLevel::new(1);
            let s = l.stats();
            let (t, j) = both(&*s);
            (t, j, 12, 27)
        }
    }
}

pub const PALETTE: [&str; 46] = [
    "é", "€", "😀", "ß", "İ", "ǰ", "\u{0301}", "ﬁ", "K", "\u{200b}", "٣", "１", // multi-byte / case-mapping / digits
    "\u{0390}", "\u{03b0}", "ŉ", "ﬃ", "ΐ", "ᾷ", // characters whose upper-casing grows up to threefold
    "=", ";", ":", ",", "[", "]", "(", ")", "{", "}", "\"", "\\", "-", "+", ".", " ", "\n", "\0",
    "0", "9", "1", "e", "E", "N", "n", "T", "G", "x",
];

pub const SOUP: [&str; 70] = [
    "Standard", "IcebergOrder", "PostOnly", "TrailingStop", "PeggedOrder", "MarketToLimit", "ReserveOrder",
    "id", "price", "quantity", "visible_quantity", "hidden_quantity", "side", "timestamp", "time_in_force",
    "trail_amount", "last_reference_price", "reference_price_offset", "reference_price_type",
    "replenish_threshold", "replenish_amount", "auto_replenish", "order_id", "new_price", "new_quantity",
    "UpdatePrice", "UpdateQuantity", "UpdatePriceAndQuantity", "Cancel", "Replace",
    "Transaction", "Transactions", "MatchResult", "PriceLevel", "OrderQueue", "PriceLevelSnapshot", "PriceLevelStatistics",
    "transaction_id", "taker_order_id", "maker_order_id", "taker_side", "remaining_quantity", "is_complete",
    "transactions", "filled_order_ids", "orders", "order_count", "orders_added", "value_executed",
    "=", ";", ":", ",", "[", "]", "=[", "],", "None", "true", "false", "BUY", "SELL", "GTC", "GTD-", "GTD-1-2",
    "18446744073709551616", "99999999999999999999999999999999", "-9223372036854775809", "-", "00000000-0000-0000-0000-000000000000",
];

#[derive(Clone, Debug, Hash, PartialEq, Eq, Serialize, Deserialize)]
pub enum Edit {
    Delete(u16),
    Insert(u16, u8),
    Subst(u16, u8),
    Dup(u16, u8),
    Truncate(u16),
    /// replace a whole run of digits by a huge / negative / empty number
    Number(u16, u8),
    /// the same palette string several times in a row
    InsertRun(u16, u8, u8),
    /// n extra well-formed `;key<i>=<i>` pairs with pairwise distinct keys
    ExtraPairs(u16, u16),
    /// swap two whole fields (segments between `;`, else between `,`, else between `:`)
    SwapFields(u16, u16, u8),
    /// cut a block of characters and paste it elsewhere
    MoveBlock(u16, u8, u16),
    /// replace a character by a multi-byte one and delete as many following characters as keeps
    /// the byte length unchanged (every later character keeps its byte offset, but offsets computed
    /// from a fixed stride no longer fall on character boundaries)
    WidenKeepLength(u16, u8),
}

#[derive(Clone, Debug, Hash, PartialEq, Eq, Serialize, Deserialize)]
pub enum Input {
    Mutated { base: Val, json: bool, edits: Vec<Edit>, cross: Option<u8> },
    Soup { entry: u8, tokens: Vec<u8> },
    Unicode { entry: u8, text: String },
}

fn edit() -> BoxedStrategy<Edit> {
    prop_oneof![
        3 => any::<u16>().prop_map(Edit::Delete),
        3 => (any::<u16>(), 0u8..46).prop_map(|(p, c)| Edit::Insert(p, c)),
        4 => (any::<u16>(), 0u8..46).prop_map(|(p, c)| Edit::Subst(p, c)),
        2 => (any::<u16>(), 0u8..46, 2u8..=6).prop_map(|(p, c, n)| Edit::InsertRun(p, c, n)),
        1 => (any::<u16>(), crate::gen::size_class(9)).prop_map(|(p, n)| Edit::ExtraPairs(p, n as u16)),
        2 => (any::<u16>(), 1u8..40).prop_map(|(p, l)| Edit::Dup(p, l)),
        2 => any::<u16>().prop_map(Edit::Truncate),
        2 => (any::<u16>(), 0u8..6).prop_map(|(p, k)| Edit::Number(p, k)),
        2 => (any::<u16>(), any::<u16>(), 0u8..3).prop_map(|(a, b, s)| Edit::SwapFields(a, b, s)),
        1 => (any::<u16>(), 1u8..60, any::<u16>()).prop_map(|(a, l, b)| Edit::MoveBlock(a, l, b)),
        2 => (any::<u16>(), 0u8..6).prop_map(|(a, c)| Edit::WidenKeepLength(a, c)),
    ]
    .boxed()
}

fn input() -> BoxedStrategy<Input> {
    let n_entries = entry_points().len() as u8;
    prop_oneof![
        6 => (codec::val(), any::<bool>(), proptest::collection::vec(edit(), 1..=4), proptest::option::weighted(0.2, 0..n_entries))
            .prop_map(|(base, json, edits, cross)| Input::Mutated { base, json, edits, cross }),
        2 => (0..n_entries, proptest::collection::vec(0u8..70, 0..40)).prop_map(|(entry, tokens)| Input::Soup { entry, tokens }),
        2 => (0..n_entries, "\\PC{0,200}").prop_map(|(entry, text)| Input::Unicode { entry, text }),
        1 => (0..n_entries, proptest::collection::vec(any::<char>(), 0..64)).prop_map(|(entry, cs)| Input::Unicode { entry, text: cs.into_iter().collect() }),
    ]
    .boxed()
}

fn pos_of(chars: usize, p: u16) -> usize {
    ((p as usize) * (chars + 1)) >> 16
}

pub fn apply_edits(base: &str, edits: &[Edit]) -> String {
    let mut cs: Vec<char> = base.chars().collect();
    for e in edits {
        match e {
            Edit::Delete(p) => {
                if !cs.is_empty() {
                    let i = pos_of(cs.len() - 1, *p);
                    cs.remove(i);
                }
            }
            Edit::Insert(p, c) => {
                let i = pos_of(cs.len(), *p);
                let ins: Vec<char> = PALETTE[*c as usize % PALETTE.len()].chars().collect();
                for (k, ch) in ins.into_iter().enumerate() {
                    cs.insert(i + k, ch);
                }
            }
            Edit::InsertRun(p, c, n) => {
                let i = pos_of(cs.len(), *p);
                let ins: Vec<char> = PALETTE[*c as usize % PALETTE.len()].chars().collect();
                let mut k = i;
                for _ in 0..*n {
                    for ch in ins.iter() {
                        cs.insert(k, *ch);
                        k += 1;
                    }
                }
            }
            Edit::ExtraPairs(p, n) => {
                // at a ';' boundary if there is one after the position, else at the position
                let start = pos_of(cs.len(), *p);
                let i = (start..cs.len()).find(|j| cs[*j] == ';').unwrap_or(cs.len());
                let mut extra = String::new();
                for k in 0..(*n).min(600) {
                    extra.push_str(&format!(";x{k}={k}"));
                }
                let ex: Vec<char> = extra.chars().collect();
                cs.splice(i..i, ex);
            }
            Edit::Subst(p, c) => {
                if !cs.is_empty() {
                    let i = pos_of(cs.len() - 1, *p);
                    let ins: Vec<char> = PALETTE[*c as usize % PALETTE.len()].chars().collect();
                    cs.remove(i);
                    for (k, ch) in ins.into_iter().enumerate() {
                        cs.insert(i + k, ch);
                    }
                }
            }
            Edit::Dup(p, l) => {
                if !cs.is_empty() && cs.len() < 6000 {
                    let i = pos_of(cs.len() - 1, *p);
                    let j = (i + *l as usize).min(cs.len());
                    let span: Vec<char> = cs[i..j].to_vec();
                    for (k, ch) in span.into_iter().enumerate() {
                        cs.insert(j + k, ch);
                    }
                }
            }
            Edit::Truncate(p) => {
                let i = pos_of(cs.len(), *p);
                cs.truncate(i);
            }
            Edit::SwapFields(a, b, sep) => {
                // preferred separator first, then whichever occurs at all
                let order = [[';', ',', ':'], [',', ';', ':'], [':', ';', ',']][*sep as usize % 3];
                if let Some(sc) = order.iter().find(|c| cs.iter().filter(|x| x == c).count() >= 1) {
                    let mut segs: Vec<Vec<char>> = vec![Vec::new()];
                    for ch in cs.iter() {
                        if ch == sc {
                            segs.push(Vec::new());
                        } else {
                            segs.last_mut().unwrap().push(*ch);
                        }
                    }
                    let i = pos_of(segs.len() - 1, *a);
                    let j = pos_of(segs.len() - 1, *b);
                    segs.swap(i, j);
                    let mut out: Vec<char> = Vec::with_capacity(cs.len());
                    for (k, sg) in segs.into_iter().enumerate() {
                        if k > 0 {
                            out.push(*sc);
                        }
                        out.extend(sg);
                    }
                    cs = out;
                }
            }
            Edit::WidenKeepLength(a, c) => {
                if !cs.is_empty() {
                    let wide = ['é', 'ß', '€', '\u{1F600}', 'ΐ', '\u{0301}'][*c as usize % 6];
                    let i = pos_of(cs.len() - 1, *a);
                    let grow = wide.len_utf8() - cs[i].len_utf8().min(wide.len_utf8());
                    cs[i] = wide;
                    // delete following single-byte characters to make up for the growth
                    let mut need = grow;
                    let mut j = i + 1;
                    while need > 0 && j < cs.len() {
                        if cs[j].len_utf8() == 1 {
                            cs.remove(j);
                            need -= 1;
                        } else {
                            j += 1;
                        }
                    }
                }
            }
            Edit::MoveBlock(a, l, b) => {
                if !cs.is_empty() {
                    let i = pos_of(cs.len() - 1, *a);
                    let j = (i + *l as usize).min(cs.len());
                    let block: Vec<char> = cs.drain(i..j).collect();
                    let k = pos_of(cs.len(), *b);
                    cs.splice(k..k, block);
                }
            }
            Edit::Number(p, k) => {
                // find the digit run at/after the position
                if cs.is_empty() {
                    continue;
                }
                let start = pos_of(cs.len() - 1, *p);
                if let Some(a) = (start..cs.len()).find(|i| cs[*i].is_ascii_digit()) {
                    let mut b = a;
                    while b < cs.len() && cs[b].is_ascii_digit() {
                        b += 1;
                    }
                    let rep = ["18446744073709551616", "-1", "", "99999999999999999999999999999999999999999", "1e5", "0x10"][*k as usize % 6];
                    cs.splice(a..b, rep.chars());
                }
            }
        }
    }
    let mut s: String = cs.into_iter().collect();
    if s.len() > 8192 {
        let mut cut = 8192;
        while !s.is_char_boundary(cut) {
            cut -= 1;
        }
        s.truncate(cut);
    }
    s
}

/// materialise the input: (entry index, text, base text if mutated)
pub fn materialise(i: &Input, n_entries: usize) -> (usize, String, Option<String>) {
    match i {
        Input::Mutated { base, json, edits, cross } => {
            let (t, j, te, je) = encodings(base);
            let (text, entry) = match (json, t) {
                (false, Some(t)) => (t, te),
                _ => (j, je),
            };
            let entry = cross.map(|c| c as usize % n_entries).unwrap_or(entry);
            (entry, apply_edits(&text, edits), Some(text))
        }
        Input::Soup { entry, tokens } => {
            let s: String = tokens.iter().map(|t| SOUP[*t as usize % SOUP.len()]).collect();
            (*entry as usize % n_entries, s, None)
        }
        Input::Unicode { entry, text } => (*entry as usize % n_entries, text.clone(), None),
    }
}

pub fn eval(i: &Input, eps: &[EntryPoint], st: &mut Stats) -> Result<(), String> {
    let (e, text, base) = materialise(i, eps.len());
    let ep = &eps[e];
    let t2 = text.clone();
    let r = catch(move || (ep.parse)(&t2));
    let kind = match i {
        Input::Mutated { .. } => "mutated",
        Input::Soup { .. } => "soup",
        Input::Unicode { .. } => "unicode",
    };
    st.count(&format!("input/{kind}"));
    st.count(&format!("entry/{}", ep.name));
    match r {
        Ok(ok) => {
            st.count(if ok { "outcome/Ok" } else { "outcome/Err" });
            let changed = base.as_ref().map(|b| *b != text).unwrap_or(true);
            let reaches = if ep.json {
                serde_json::from_str::<serde_json::Value>(&text).is_ok()
            } else {
                !ep.prefix.is_empty() && text.starts_with(ep.prefix) || (ep.prefix.is_empty() && text.contains(':'))
            };
            if changed && reaches {
                st.count("reaches_field_loop");
                if !text.is_ascii() {
                    st.count("reaches_field_loop/non_ascii");
                }
                if st.nontrivial(hash_of(&(e, &text))) && st.want_sample() {
                    let mut shown = text.clone();
                    if shown.len() > 300 {
                        let mut cut = 300;
                        while !shown.is_char_boundary(cut) {
                            cut -= 1;
                        }
                        shown.truncate(cut);
                        shown.push_str("...");
                    }
                    st.sample(json!({"entry": ep.name, "input": shown, "outcome": if ok {"Ok"} else {"Err"}}));
                }
            }
            Ok(())
        }
        Err(m) => Err(format!("{}({:?}) panicked: {}", ep.name, text, m)),
    }
}

// ---------------------------------------------------------------------------------
// huge inputs (tens of thousands of repeated tokens), each parsed in a child process so that a
// stack overflow or abort is observed instead of killing the check

#[derive(Clone, Debug, Hash, PartialEq, Eq, Serialize, Deserialize)]
pub struct Huge {
    pub base: Val,
    pub json: bool,
    pub token: u8,
    pub count: u32,
    pub at: u16,
    pub cross: Option<u8>,
}

pub const HUGE_TOKENS: [&str; 14] = ["[", "]", "[[", "(", "x", "é", ";a=b", "0", ",", ":", "{", "[{", "\"", ";junk=99999999"];

fn huge() -> BoxedStrategy<Huge> {
    let n_entries = entry_points().len() as u8;
    (
        codec::val(),
        any::<bool>(),
        0u8..14,
        prop_oneof![2 => 1_000u32..6_000, 2 => 6_000u32..40_000, 1 => 40_000u32..130_000],
        any::<u16>(),
        proptest::option::weighted(0.1, 0..n_entries),
    )
        .prop_map(|(base, json, token, count, at, cross)| Huge { base, json, token, count, at, cross })
        .boxed()
}

pub fn materialise_huge(h: &Huge, n_entries: usize) -> (usize, String) {
    let (t, j, te, je) = encodings(&h.base);
    let (text, entry) = match (h.json, t) {
        (false, Some(t)) => (t, te),
        _ => (j, je),
    };
    let entry = h.cross.map(|c| c as usize % n_entries).unwrap_or(entry);
    let tok = HUGE_TOKENS[h.token as usize % HUGE_TOKENS.len()];
    let cs: Vec<char> = text.chars().collect();
    let i = pos_of(cs.len(), h.at);
    let mut out = String::with_capacity(text.len() + tok.len() * h.count as usize);
    out.extend(cs[..i].iter());
    let reps = (h.count as usize).min(600_000 / tok.len().max(1));
    for _ in 0..reps {
        out.push_str(tok);
    }
    out.extend(cs[i..].iter());
    (entry, out)
}

/// Parse `text` with entry point `entry` in a child process. Ok(()) = returned Ok or Err;
/// Err(reason) = panicked or aborted. A child that does not finish in time is not judged.
pub fn parse_in_child(entry: usize, text: &str, tag: &str) -> Result<bool, String> {
    use std::io::Read;
    let dir = std::env::temp_dir().join("plv-c18");
    let _ = std::fs::create_dir_all(&dir);
    let path = dir.join(format!("{}-{}.bin", std::process::id(), tag));
    let mut bytes = vec![entry as u8];
    bytes.extend_from_slice(text.as_bytes());
    std::fs::write(&path, &bytes).map_err(|e| format!("cannot write child input: {e}"))?;
    let exe = std::env::current_exe().map_err(|e| e.to_string())?;
    let mut child = std::process::Command::new(exe)
        .arg("c18-one")
        .arg(&path)
        .stdout(std::process::Stdio::null())
        .stderr(std::process::Stdio::piped())
        .spawn()
        .map_err(|e| format!("cannot spawn child: {e}"))?;
    // bounded wait (steps of 5 ms, at most 60 s); a timeout is "not judged", never a violation
    let mut waited = 0u32;
    let status = loop {
        match child.try_wait() {
            Ok(Some(s)) => break Some(s),
            Ok(None) => {
                if waited > 12_000 {
                    let _ = child.kill();
                    let _ = child.wait();
                    break None;
                }
                std::thread::sleep(std::time::Duration::from_millis(5));
                waited += 1;
            }
            Err(_) => break None,
        }
    };
    let _ = std::fs::remove_file(&path);
    let status = match status {
        Some(s) => s,
        None => return Ok(false),
    };
    if status.success() {
        return Ok(true);
    }
    let mut err = String::new();
    if let Some(mut e) = child.stderr.take() {
        let _ = e.read_to_string(&mut err);
    }
    let err: String = err.lines().rev().take(3).collect::<Vec<_>>().join(" | ");
    use std::os::unix::process::ExitStatusExt;
    match (status.code(), status.signal()) {
        (_, Some(sig)) => Err(format!("the process was killed by signal {sig} (abort / stack overflow): {err}")),
        (Some(c), _) => Err(format!("panicked (child exit code {c}): {err}")),
        _ => Err(format!("child ended abnormally: {err}")),
    }
}

thread_local! {
    static HUGE_SEQ: std::cell::Cell<u64> = const { std::cell::Cell::new(0) };
}

pub fn eval_huge(h: &Huge, eps: &[EntryPoint], st: &mut Stats) -> Result<(), String> {
    let (e, text) = materialise_huge(h, eps.len());
    let seq = HUGE_SEQ.with(|c| {
        c.set(c.get() + 1);
        c.get()
    });
    let tag = format!("{:?}-{}", std::thread::current().id(), seq).replace(['(', ')'], "");
    st.count("huge/inputs");
    st.add("huge/bytes", text.len() as u64);
    match parse_in_child(e, &text, &tag) {
        Ok(true) => {
            if st.nontrivial(hash_of(h)) && st.want_sample() {
                st.sample(json!({"entry": eps[e].name, "huge_input": format!("{} bytes: a valid encoding with {:?} x {} inserted", text.len(), HUGE_TOKENS[h.token as usize % HUGE_TOKENS.len()], h.count), "outcome": "returned"}));
            }
            Ok(())
        }
        Ok(false) => {
            st.count("huge/child_timeout_not_judged");
            Ok(())
        }
        Err(m) => Err(format!(
            "{} on a {}-byte input (a valid encoding with {:?} repeated {} times inserted at char {}): {}",
            eps[e].name,
            text.len(),
            HUGE_TOKENS[h.token as usize % HUGE_TOKENS.len()],
            h.count,
            pos_of(text.chars().count(), h.at),
            m
        )),
    }
}

pub fn run(cfg: &RunCfg) -> Report {
    let mut rep = Report::new(
        "C18",
        "exploration",
        "strings fed to all 13 FromStr implementations and 18 JSON entry points (serde_json::from_str into every serde type, PriceLevelSnapshotPackage::from_json, PriceLevel::from_snapshot_json): (i) a valid encoding printed by the library, mutated by 1-4 character-level edits (delete, insert, substitute, duplicate a span, truncate, replace a number by an out-of-range one) with a palette containing multi-byte and case-mapping characters, sometimes fed to another type's parser; (ii) token soup from the grammars' own keys, separators, type names and huge numbers; (iii) arbitrary Unicode; (iv) huge inputs: a valid encoding with one token ('[', '[[', ';a=b', a multi-byte character, ...) repeated 1 000 - 130 000 times inserted at a generated position (up to 600 KB), each parsed in a child process so that a stack overflow or abort is observed. Oracle: the call returns Ok or Err (catch_unwind / child exit status), never panics or aborts; inputs of (i)-(iii) <= 4 KB. Since rounds 4-5: edits also swap two whole fields, move blocks, and widen a character to a multi-byte one while deleting following characters so that the byte length is unchanged; every fourth worker parses under a log subscriber that evaluates every tracing event. Non-trivial = input that differs from every valid base encoding and gets past the first format test (has the type prefix / is syntactically valid JSON); distinct = hash of (entry point, input). The thorough tier adds a coverage-guided libFuzzer campaign (fuzz target parse_any).",
    );
    rep.assumptions = vec![
        "hangs are not detected by this oracle (a wall-clock watchdog around the whole check reports them as inconclusive, exit 2)".into(),
    ];
    let eps = entry_points();
    let n = cfg.cases(2_000_000, 60_000_000);
    rep.absorb("c18_input", explore(cfg, "C18", n, input, |i: &Input, st| eval(i, &eps, st)));
    if !rep.failed() {
        let n = cfg.cases(2_400, 60_000);
        rep.absorb("c18_huge", explore(cfg, "C18-huge", n, huge, |h: &Huge, st| eval_huge(h, &eps, st)));
    }
    rep
}

pub fn replay(v: &serde_json::Value) -> Result<(), String> {
    if let Some(raw) = v.get("raw") {
        // raw form: {"entry": name, "text": "..."} (libFuzzer artifacts converted)
        let name = raw["entry"].as_str().unwrap_or("");
        let text = raw["text"].as_str().unwrap_or("").to_string();
        let eps = entry_points();
        let ep = eps.iter().find(|e| e.name == name).ok_or("unknown entry point")?;
        return match catch(|| (ep.parse)(&text)) {
            Ok(_) => Ok(()),
            Err(m) => Err(format!("{}({:?}) panicked: {}", ep.name, text, m)),
        };
    }
    let eps = entry_points();
    let mut st = Stats::default();
    if v["engine"] == "c18_huge" {
        let h: Huge = load_case(v)?;
        return eval_huge(&h, &eps, &mut st);
    }
    let i: Input = load_case(v)?;
    eval(&i, &eps, &mut st)
}
