//! Engine E2: thread programs on one shared level under the deterministic scheduler, with
//! the oracles of C03 (conservation / per-order linearization), C08 (drain), C12 (probes),
//! C13 (truthful acknowledgements), C14 (transaction ids) and C15 (statistics).

use crate::gen::{self, pick, OrderGenCfg, Profile};
use crate::model::{amend_ok, ref_match, Order};
use crate::sched::{self, run_scheduled, Ctx, ExecInfo};
use crate::spec::*;
use pricelevel::verif::Step;
use pricelevel::{OrderId, OrderUpdate, PriceLevel, UuidGenerator};
use proptest::prelude::*;
use serde::{Deserialize, Serialize};
use std::collections::{HashMap, HashSet};
use std::sync::Mutex;

#[derive(Clone, Copy, Debug, PartialEq, Eq, Hash, Serialize, Deserialize)]
pub enum TOp {
    /// add a fresh order (its id is the op's own unique id)
    Add(OrderSpec),
    Match(u64),
    /// index into the id universe (preloaded ids first, then the ids of the Add ops)
    Cancel(u16),
    UpdateQty(u16, u64),
    /// move to another price (removal)
    Move(u16),
    /// removal through price+quantity (via 1) or replace (via 2) with another price
    MoveVia(u16, u8),
    /// same-price amendment through price+quantity (via 1) or replace (via 2)
    AmendVia(u16, u64, u8),
    Read,
    /// cancel the order and, if the cancel handed it back, submit it again under the same id with a
    /// new timestamp (flag bit 0: one more displayed unit, otherwise exactly the same quantities):
    /// two calls of the same thread, so the id is never resting twice
    Readd(u16, u8),
}

impl TOp {
    pub fn is_removal(&self) -> bool {
        matches!(self, TOp::Cancel(_) | TOp::Move(_) | TOp::MoveVia(..))
    }
    pub fn is_amend(&self) -> bool {
        matches!(self, TOp::UpdateQty(..) | TOp::AmendVia(..))
    }
    pub fn amend_qty(&self) -> Option<u64> {
        match self {
            TOp::UpdateQty(_, q) | TOp::AmendVia(_, q, _) => Some(*q),
            _ => None,
        }
    }
    pub fn target_index(&self) -> Option<u16> {
        match self {
            TOp::Cancel(i) | TOp::Move(i) | TOp::MoveVia(i, _) | TOp::UpdateQty(i, _) | TOp::AmendVia(i, _, _) | TOp::Readd(i, _) => Some(*i),
            _ => None,
        }
    }
}

#[derive(Clone, Debug, PartialEq, Eq, Hash, Serialize, Deserialize)]
pub struct Program {
    pub price: u64,
    pub preload: Vec<OrderSpec>,
    pub threads: Vec<Vec<TOp>>,
    pub first: u8,
    pub schedule: Vec<u8>,
    /// sequential prelude before the threads start: this many orders (fresh reserved ids) are
    /// added and cancelled again, leaving that many dead tickets in the queue
    #[serde(default)]
    pub churn: u32,
    /// sequential prelude: this many one-unit Standard orders (fresh reserved ids) are added and
    /// stay resting (large sweeps, many-order states)
    #[serde(default)]
    pub burst: u32,
}

impl Program {
    /// id universe: preloaded orders first, then one id per Add op in (thread, index) order
    pub fn universe(&self) -> Vec<OrderId> {
        let mut n = self.preload.len();
        for t in &self.threads {
            n += t.iter().filter(|o| matches!(o, TOp::Add(_))).count();
        }
        (0..n)
            .map(|i| {
                if i % 2 == 0 {
                    OrderId::from_u64(1 + i as u64)
                } else {
                    IdSpec::Ulid(1 + i as u128).build()
                }
            })
            .collect()
    }
}

/// (placeholder description of a resubmitted order in the call log; the order itself is recorded)
const READD_SPEC: OrderSpec = OrderSpec {
    kind: Kind::Standard,
    display: 0,
    hidden: 0,
    buy: false,
    tif: crate::spec::Tif::Gtc,
    ts: 0,
    threshold: 0,
    amount: None,
    auto: false,
    trail: 0,
    lastref: 0,
    offset: 0,
    peg: 0,
    own_price: None,
};

fn conc_order(profile_kinds: [u32; 7]) -> BoxedStrategy<OrderSpec> {
    // positive quantities 1..=10, reserve amount != 0 (DESIGN §3 thread programs)
    let cfg = OrderGenCfg {
        profile: Profile::Small,
        zero_display: false,
        zero_amount: false,
        kind_weights: profile_kinds,
    };
    (gen::order_spec(cfg), 0u8..12)
        .prop_map(|(mut s, stuck)| {
            if stuck == 1 && s.kind == Kind::Reserve {
                // an order that shows nothing until a match reaches it (replenished on that visit)
                s.display = 0;
                s.hidden = 1 + s.hidden % 10;
                s.auto = true;
                s.amount = match s.amount {
                    Some(a) if a >= 1 && a <= 1000 => Some(a),
                    Some(_) => Some(7),
                    None => None,
                };
                return s;
            }
            if stuck == 0 && s.kind.has_hidden() {
                // an order that shows nothing and cannot replenish (it can only wait): iceberg with
                // display 0, or reserve with display 0 and replenish amount 0
                s.display = 0;
                s.hidden = 1 + s.hidden % 10;
                s.auto = true;
                s.amount = Some(0);
                return s;
            }
            s.display = 1 + (s.display - 1) % 10;
            s.hidden = if s.kind.has_hidden() { s.hidden % 11 } else { 0 };
            if let Some(a) = s.amount {
                if a > 1000 {
                    s.amount = Some(7);
                }
            }
            s
        })
        .boxed()
}

#[derive(Clone, Copy, Debug)]
pub struct ProgCfg {
    pub max_threads: usize,
    pub max_ops: usize,
    pub w_add: u32,
    pub w_match: u32,
    pub w_cancel: u32,
    pub w_amend: u32,
    pub w_move: u32,
    pub w_read: u32,
    pub schedule_len: usize,
}

impl ProgCfg {
    pub fn general(t: crate::runner::Tier) -> Self {
        ProgCfg {
            max_threads: t.pick(3, 4),
            max_ops: t.pick(3, 4),
            w_add: 3,
            w_match: 5,
            w_cancel: 3,
            w_amend: 4,
            w_move: 1,
            w_read: 1,
            schedule_len: t.pick(60, 120),
        }
    }
}

fn top(cfg: ProgCfg) -> BoxedStrategy<TOp> {
    let kinds = [4, 4, 1, 1, 1, 1, 4];
    prop_oneof![
        cfg.w_add => conc_order(kinds).prop_map(TOp::Add),
        cfg.w_match => prop_oneof![9 => 1u64..=15, 1 => 60u64..=140].prop_map(TOp::Match),
        cfg.w_cancel => any::<u16>().prop_map(TOp::Cancel),
        cfg.w_amend => (any::<u16>(), 1u64..=12, 0u8..6).prop_map(|(i, q, v)| if v < 4 { TOp::UpdateQty(i, q) } else { TOp::AmendVia(i, q, v - 3) }),
        cfg.w_move => (any::<u16>(), 0u8..3).prop_map(|(i, v)| if v == 0 { TOp::Move(i) } else { TOp::MoveVia(i, v) }),
        cfg.w_read => Just(TOp::Read),
        (cfg.w_cancel / 2).max(1) => (any::<u16>(), any::<u8>()).prop_map(|(i, f)| TOp::Readd(i, f)),
    ]
    .boxed()
}

pub fn program(cfg: ProgCfg) -> BoxedStrategy<Program> {
    let kinds = [4, 4, 1, 1, 1, 1, 4];
    (
        1u64..=1000,
        proptest::collection::vec(conc_order(kinds), 1..=4),
        proptest::collection::vec(proptest::collection::vec(top(cfg), 1..=cfg.max_ops), 2..=cfg.max_threads),
        any::<u8>(),
        sched::schedule(cfg.schedule_len),
    )
        .prop_flat_map(|(price, preload, threads, first, schedule)| {
            let churn = prop_oneof![3 => Just(0u32), 1 => gen::size_class(17)];
            let burst = prop_oneof![6 => Just(0u32), 1 => gen::size_class(10)];
            (churn, burst).prop_map(move |(churn, burst)| Program { price, preload: preload.clone(), threads: threads.clone(), first, schedule: schedule.clone(), churn, burst })
        })
        .boxed()
}

// ---------------------------------------------------------------------------------
// execution log

#[derive(Clone, Debug)]
pub enum CallResult {
    Added,
    Matched { requested: u64, fills: Vec<(OrderId, u64, uuid::Uuid)>, remaining: u64, filled: Vec<OrderId> },
    /// cancel / move / amend: Ok(order) / Ok(None) / Err
    Updated(Result<Option<Order>, String>),
    Read { vis: u64, hid: u64, count: usize },
    Panicked(String),
}

#[derive(Clone, Debug)]
pub struct Call {
    pub tid: usize,
    pub op: TOp,
    pub id: Option<OrderId>,
    /// the order handed to add_order (Add calls)
    pub order: Option<Order>,
    pub start: u64,
    pub end: u64,
    pub result: CallResult,
    /// for cancel / amend: was the id in the map at the call's last lookup step?
    pub listed_at_last_lookup: Option<bool>,
    /// number of steps of this call that ran while another call on the same id was in progress
    pub overlapped_same_id: bool,
}

#[derive(Default)]
struct World {
    calls: Vec<Call>,
    /// per thread: index into calls of the call in progress
    in_progress: Vec<Option<usize>>,
    /// C12: upper bound on what has been supplied so far (quantities of calls already *called*)
    supplied_bound: u128,
    orders_bound: usize,
    probe_violation: Option<String>,
    probes: u64,
    preempted_inside_call: bool,
    overlap_same_id: bool,
}

pub struct Execution {
    pub level: PriceLevel,
    pub universe: Vec<OrderId>,
    pub initial: Vec<Order>,
    pub calls: Vec<Call>,
    pub info: ExecInfo,
    pub probe_violation: Option<String>,
    pub probes: u64,
    pub preempted_inside_call: bool,
    pub overlap_same_id: bool,
    pub generator: UuidGenerator,
    pub with_probes: bool,
    /// statistics handle taken before anything was added
    pub stats0: std::sync::Arc<pricelevel::PriceLevelStatistics>,
}

pub fn execute(p: &Program, with_probes: bool) -> Execution {
    let universe = p.universe();
    let level = PriceLevel::new(p.price);
    let stats0 = level.stats();
    let mut initial = Vec::new();
    let mut supplied: u128 = 0;
    for (i, s) in p.preload.iter().enumerate() {
        let mut s = *s;
        s.ts = 100 + i as u64;
        let o = s.build(universe[i], p.price);
        supplied += o.visible_quantity() as u128 + o.hidden_quantity() as u128;
        level.add_order(o);
        initial.push(o);
    }
    // prelude (sequential, before any managed thread exists): dead tickets
    let churn_spec = OrderSpec { kind: Kind::Standard, display: 1, hidden: 0, buy: false, tif: Tif::Gtc, ts: 50, threshold: 0, amount: None, auto: false, trail: 0, lastref: 0, offset: 0, peg: 0, own_price: None };
    for k in 0..p.churn {
        let id = OrderId::from_u64(0xC0_0000_0000 + k as u64);
        level.add_order(churn_spec.build(id, p.price));
        let _ = level.update_order(OrderUpdate::Cancel { order_id: id });
    }
    for k in 0..p.burst {
        let id = OrderId::from_u64(0xB0_0000_0000 + k as u64);
        let mut sp = churn_spec;
        sp.ts = 60 + k as u64;
        level.add_order(sp.build(id, p.price));
        supplied += 1;
    }
    let generator = UuidGenerator::new(uuid::Uuid::from_u128(0xC0FFEE));
    let world = Mutex::new(World {
        in_progress: vec![None; p.threads.len()],
        supplied_bound: supplied,
        orders_bound: p.preload.len() + p.burst as usize,
        ..World::default()
    });
    // assign add ids
    let mut next_add = p.preload.len();
    let mut add_ids: Vec<Vec<Option<OrderId>>> = Vec::new();
    for t in &p.threads {
        let mut v = Vec::new();
        for o in t {
            if matches!(o, TOp::Add(_)) {
                v.push(Some(universe[next_add]));
                next_add += 1;
            } else {
                v.push(None);
            }
        }
        add_ids.push(v);
    }
    let level_ref = &level;
    let world_ref = &world;
    let gen_ref = &generator;
    let uni = &universe;
    let price = p.price;
    let probe = move |tid: usize, _now: u64, step: &Step| {
        let mut w = world_ref.lock().unwrap();
        w.probes += 1;
        // C12: aggregates within what was ever supplied
        let vis = level_ref.visible_quantity() as u128;
        let hid = level_ref.hidden_quantity() as u128;
        let cnt = level_ref.order_count();
        if w.probe_violation.is_none() && (vis > w.supplied_bound || hid > w.supplied_bound || cnt > w.orders_bound) {
            w.probe_violation = Some(format!(
                "before step {} of thread {} ({:?} at {}): visible={} hidden={} count={} but at most {} units / {} orders were ever supplied",
                _now, tid, step.kind, step.site, vis, hid, cnt, w.supplied_bound, w.orders_bound
            ));
        }
        // C13: is the target listed at this lookup step of a cancel / amend?
        if sched::is_lookup(step.kind) {
            if let Some(ci) = w.in_progress[tid] {
                let (is_upd, id) = {
                    let c = &w.calls[ci];
                    (c.op.is_removal() || c.op.is_amend(), c.id)
                };
                if is_upd {
                    if let Some(id) = id {
                        let listed = level_ref.iter_orders().iter().any(|o| o.id() == id);
                        w.calls[ci].listed_at_last_lookup = Some(listed);
                    }
                }
            }
        }
        // classification: is another thread inside a call that touches the same order right now?
        if let Some(ci) = w.in_progress[tid] {
            let mine_read = matches!(w.calls[ci].op, TOp::Read);
            let mine_match = matches!(w.calls[ci].op, TOp::Match(_));
            let my = w.calls[ci].id;
            let mut overlap = false;
            let mut any_other = false;
            for (t2, ip) in w.in_progress.iter().enumerate() {
                if t2 == tid {
                    continue;
                }
                if let Some(cj) = ip {
                    any_other = true;
                    let other = &w.calls[*cj];
                    let other_read = matches!(other.op, TOp::Read);
                    let other_match = matches!(other.op, TOp::Match(_));
                    if !mine_read && !other_read && (mine_match || other_match || (my.is_some() && other.id == my)) {
                        overlap = true;
                    }
                }
            }
            if any_other {
                w.preempted_inside_call = true;
            }
            if overlap {
                w.overlap_same_id = true;
                w.calls[ci].overlapped_same_id = true;
            }
        }
    };
    let mut bodies: Vec<Box<dyn FnOnce(&Ctx) + Send + '_>> = Vec::new();
    for (tid, ops) in p.threads.iter().enumerate() {
        let ops = ops.clone();
        let ids = add_ids[tid].clone();
        bodies.push(Box::new(move |ctx: &Ctx| {
            // (a Readd is two calls: a cancel and, if that handed the order back, an add of it)
            let mut micro: Vec<(usize, TOp, Option<u8>)> = Vec::new();
            for (k, op) in ops.iter().enumerate() {
                match op {
                    TOp::Readd(i, f) => {
                        micro.push((k, TOp::Cancel(*i), None));
                        micro.push((k, TOp::Readd(*i, *f), Some(*f)));
                    }
                    other => micro.push((k, *other, None)),
                }
            }
            let mut handed_back: Option<Order> = None;
            for (k, op, readd) in micro.iter() {
                let k = *k;
                let target = |i: u16| uni[pick(i, uni.len())];
                // the second half of a Readd: submit what the cancel just handed back (if anything)
                let resubmitted: Option<Order> = match readd {
                    Some(f) => match handed_back.take() {
                        Some(o) => {
                            let o = crate::spec::with_timestamp(&o, 5000 + (tid * 100 + k) as u64);
                            Some(if f & 1 == 1 { crate::spec::with_quantities(&o, o.visible_quantity() + 1, o.hidden_quantity()) } else { o })
                        }
                        None => continue,
                    },
                    None => None,
                };
                let readd_as_add = resubmitted.map(|o| TOp::Add(crate::spec::OrderSpec { display: o.visible_quantity(), hidden: o.hidden_quantity(), ..READD_SPEC }));
                let op = readd_as_add.as_ref().unwrap_or(op);
                let id = match (op, &resubmitted) {
                    (_, Some(o)) => Some(o.id()),
                    (TOp::Add(_), None) => ids[k],
                    (TOp::Cancel(i) | TOp::Move(i) | TOp::UpdateQty(i, _) | TOp::MoveVia(i, _) | TOp::AmendVia(i, _, _), None) => Some(target(*i)),
                    _ => None,
                };
                let start = ctx.now();
                let ci = {
                    let mut w = world_ref.lock().unwrap();
                    match op {
                        TOp::Add(s) => {
                            w.supplied_bound += match &resubmitted {
                                Some(o) => o.visible_quantity() as u128 + o.hidden_quantity() as u128,
                                None => s.display as u128 + if s.kind.has_hidden() { s.hidden as u128 } else { 0 },
                            };
                            w.orders_bound += 1;
                        }
                        TOp::UpdateQty(_, q) | TOp::AmendVia(_, q, _) => w.supplied_bound += *q as u128,
                        _ => {}
                    }
                    w.calls.push(Call {
                        tid,
                        op: *op,
                        id,
                        order: match (op, &resubmitted) {
                            (_, Some(o)) => Some(*o),
                            (TOp::Add(s), None) => {
                                let mut s = *s;
                                s.ts = 1000 + (tid * 100 + k) as u64;
                                Some(s.build(id.unwrap(), price))
                            }
                            _ => None,
                        },
                        start,
                        end: u64::MAX,
                        result: CallResult::Panicked("in progress".into()),
                        listed_at_last_lookup: None,
                        overlapped_same_id: false,
                    });
                    let ci = w.calls.len() - 1;
                    w.in_progress[tid] = Some(ci);
                    ci
                };
                let result = std::panic::catch_unwind(std::panic::AssertUnwindSafe(|| match op {
                    TOp::Add(_) if resubmitted.is_some() => {
                        level_ref.add_order(resubmitted.unwrap());
                        CallResult::Added
                    }
                    TOp::Readd(..) => unreachable!("a Readd runs as a cancel and an add"),
                    TOp::Add(s) => {
                        let mut s = *s;
                        s.ts = 1000 + (tid * 100 + k) as u64;
                        level_ref.add_order(s.build(id.unwrap(), price));
                        CallResult::Added
                    }
                    TOp::Match(q) => {
                        let taker = OrderId::from_u64(0xF000_0000 + (tid * 100 + k) as u64);
                        let r = level_ref.match_order(*q, taker, gen_ref);
                        CallResult::Matched {
                            requested: *q,
                            fills: r.transactions.as_vec().iter().map(|t| (t.maker_order_id, t.quantity, t.transaction_id)).collect(),
                            remaining: r.remaining_quantity,
                            filled: r.filled_order_ids.clone(),
                        }
                    }
                    TOp::Cancel(_) => CallResult::Updated(
                        level_ref
                            .update_order(OrderUpdate::Cancel { order_id: id.unwrap() })
                            .map(|o| o.map(|a| *a))
                            .map_err(|e| e.to_string()),
                    ),
                    TOp::Move(_) => CallResult::Updated(
                        level_ref
                            .update_order(OrderUpdate::UpdatePrice { order_id: id.unwrap(), new_price: price + 1 })
                            .map(|o| o.map(|a| *a))
                            .map_err(|e| e.to_string()),
                    ),
                    TOp::UpdateQty(_, q) => CallResult::Updated(
                        level_ref
                            .update_order(OrderUpdate::UpdateQuantity { order_id: id.unwrap(), new_quantity: *q })
                            .map(|o| o.map(|a| *a))
                            .map_err(|e| e.to_string()),
                    ),
                    TOp::MoveVia(_, via) => {
                        let u = if *via == 1 {
                            OrderUpdate::UpdatePriceAndQuantity { order_id: id.unwrap(), new_price: price + 1, new_quantity: 3 }
                        } else {
                            OrderUpdate::Replace { order_id: id.unwrap(), price: price + 1, quantity: 3, side: pricelevel::Side::Buy }
                        };
                        CallResult::Updated(level_ref.update_order(u).map(|o| o.map(|a| *a)).map_err(|e| e.to_string()))
                    }
                    TOp::AmendVia(_, q, via) => {
                        let u = if *via == 1 {
                            OrderUpdate::UpdatePriceAndQuantity { order_id: id.unwrap(), new_price: price, new_quantity: *q }
                        } else {
                            OrderUpdate::Replace { order_id: id.unwrap(), price, quantity: *q, side: pricelevel::Side::Sell }
                        };
                        CallResult::Updated(level_ref.update_order(u).map(|o| o.map(|a| *a)).map_err(|e| e.to_string()))
                    }
                    TOp::Read => {
                        let s = level_ref.snapshot();
                        let _ = level_ref.iter_orders();
                        CallResult::Read { vis: s.visible_quantity, hid: s.hidden_quantity, count: s.order_count }
                    }
                }));
                let result = match result {
                    Ok(r) => r,
                    Err(pl) => {
                        if pl.downcast_ref::<sched::Aborted>().is_some() {
                            std::panic::resume_unwind(pl);
                        }
                        CallResult::Panicked(format!(
                            "{} at {}",
                            crate::runner::panic_message(&pl),
                            crate::runner::last_panic_loc()
                        ))
                    }
                };
                let end = ctx.now();
                // (the first half of a Readd remembers what the cancel handed back)
                handed_back = match (micro.iter().any(|m| m.0 == k && m.2.is_some()), op, &result) {
                    (true, TOp::Cancel(_), CallResult::Updated(Ok(Some(o)))) => Some(*o),
                    _ => None,
                };
                let mut w = world_ref.lock().unwrap();
                w.calls[ci].end = end;
                w.calls[ci].result = result;
                w.in_progress[tid] = None;
            }
        }));
    }
    // (a sweep over the prelude's dead tickets / resting orders costs a few steps each)
    let budget = 20_000 + 8 * p.churn as u64 + 40 * p.burst as u64;
    let probe_dyn: &sched::Probe = &probe;
    let info = run_scheduled(&p.schedule, p.first, budget, bodies, if with_probes { Some(probe_dyn) } else { None });
    let w = world.into_inner().unwrap();
    Execution {
        level,
        universe,
        initial,
        calls: w.calls,
        info,
        probe_violation: w.probe_violation,
        probes: w.probes,
        preempted_inside_call: w.preempted_inside_call,
        overlap_same_id: w.overlap_same_id,
        generator,
        with_probes,
        stats0,
    }
}

// ---------------------------------------------------------------------------------
// oracles

#[derive(Clone, Debug, PartialEq, Eq, Hash, PartialOrd, Ord)]
pub enum COracle {
    /// C03(a) aggregates == sums at quiescence
    Agg,
    /// C03(b)/C08/C13(2): per-order linearization
    Linear,
    /// C08: drain
    Drain,
    /// C12: probe
    Range,
    /// C13(1): not-found although the order was in the map at the lookup
    NotFound,
    /// C14: transaction ids
    TxIds,
    /// C15: statistics
    Stats,
    /// panic or step budget
    Crash,
}

#[derive(Clone, Debug)]
pub struct CViolation {
    pub oracle: COracle,
    pub msg: String,
}

#[derive(Clone, Debug)]
enum Ev {
    Add { order: Order },
    Fill { qty: u64, taker_remaining: u64 },
    Amend { new_q: u64, returned: Order },
    Remove { returned: Order },
}

#[derive(Clone, Debug)]
struct Event {
    ev: Ev,
    start: u64,
    end: u64,
    /// events of the same call keep their order (fills of one match)
    call: usize,
    seq: usize,
}

fn linearize(initial: Option<Order>, events: &[Event], fin: Option<Order>, any_match: bool) -> bool {
    // DFS over orders consistent with real time (a.end < b.start => a first) and per-call order,
    // memoised on (set of events done, order state) so that an unexplainable history fails fast
    type Memo = HashSet<(u32, Option<(u64, u64, u64)>, bool)>;
    fn go(state: Option<Order>, dead: bool, events: &[Event], done: u32, fin: &Option<Order>, memo: &mut Memo, any_match: bool) -> bool {
        if done.count_ones() as usize == events.len() && state == *fin {
            return true;
        }
        // a match that reaches an order showing nothing trades nothing with it but may replenish
        // it from its hidden quantity (or let it go): a step without an event of its own
        if any_match {
            if let Some(o) = &state {
                if o.visible_quantity() == 0 {
                    let nx = ref_match(o, 1).next;
                    if nx != state {
                        let key = (done | (1 << 31), state.as_ref().map(|o| (o.visible_quantity(), o.hidden_quantity(), o.timestamp())), dead);
                        if memo.insert(key) {
                            let gone = nx.is_none();
                            if go(nx, gone, events, done, fin, memo, any_match) {
                                return true;
                            }
                        }
                    }
                }
            }
        }
        if done.count_ones() as usize == events.len() {
            return false;
        }
        let key = (done, state.as_ref().map(|o| (o.visible_quantity(), o.hidden_quantity(), o.timestamp())), dead);
        if !memo.insert(key) {
            return false;
        }
        for i in 0..events.len() {
            if done & (1 << i) != 0 {
                continue;
            }
            // all events that must precede i are done?
            let mut ready = true;
            for j in 0..events.len() {
                if j != i && done & (1 << j) == 0 {
                    let before = events[j].end < events[i].start
                        || (events[j].call == events[i].call && events[j].seq < events[i].seq);
                    if before {
                        ready = false;
                        break;
                    }
                }
            }
            if !ready {
                continue;
            }
            let next: Option<(Option<Order>, bool)> = match (&events[i].ev, &state) {
                (Ev::Add { order }, None) if !dead || order.timestamp() >= 5000 => Some((Some(*order), false)),
                (Ev::Fill { qty, taker_remaining }, Some(o)) => {
                    let r = ref_match(o, *taker_remaining);
                    if r.consumed == *qty && *qty > 0 {
                        let gone = r.next.is_none();
                        Some((r.next, gone))
                    } else {
                        None
                    }
                }
                (Ev::Amend { new_q, returned }, Some(o)) => {
                    if amend_ok(o, *new_q, returned) {
                        Some((Some(*returned), false))
                    } else {
                        None
                    }
                }
                (Ev::Remove { returned }, Some(o)) => {
                    if *o == *returned {
                        Some((None, true))
                    } else {
                        None
                    }
                }
                _ => None,
            };
            if let Some((ns, nd)) = next {
                if go(ns, nd, events, done | (1 << i), fin, memo, any_match) {
                    return true;
                }
            }
        }
        false
    }
    let mut memo: Memo = HashSet::new();
    go(initial, false, events, 0, &fin, &mut memo, any_match)
}

pub struct Judgement {
    pub violations: Vec<CViolation>,
    /// cancel / amend answered not-found while the order was held outside the map (KF-C13-1)
    pub kf_c13_1: u64,
    pub drained: bool,
    pub cancel_overlapping: bool,
    pub txids: usize,
    /// orders with more events than the linearization search bound (not judged)
    pub unjudged_orders: u64,
}

/// Evaluate all quiescent oracles. If `drain` is set a draining match is issued first (C08).
pub fn judge(p: &Program, ex: &Execution, drain: bool) -> Judgement {
    let mut v: Vec<CViolation> = Vec::new();
    let mut kf = 0u64;
    let mut push = |o: COracle, m: String| v.push(CViolation { oracle: o, msg: m });
    if ex.info.budget_exceeded {
        push(COracle::Crash, format!("the program did not finish within the step budget ({} steps): livelock under this schedule", ex.info.steps));
    }
    for (tid, m) in &ex.info.panics {
        push(COracle::Crash, format!("thread {tid} panicked outside an API call: {m}"));
    }
    for c in &ex.calls {
        if let CallResult::Panicked(m) = &c.result {
            push(COracle::Crash, format!("thread {} {:?} panicked: {}", c.tid, c.op, m));
        }
    }
    if let Some(m) = &ex.probe_violation {
        push(COracle::Range, m.clone());
    }
    if ex.info.budget_exceeded || !ex.info.panics.is_empty() {
        return Judgement { violations: v, kf_c13_1: 0, drained: false, cancel_overlapping: false, txids: 0, unjudged_orders: 0 };
    }
    let level = &ex.level;
    // ---- C03(a): aggregates == sums over the listing
    let agg = |level: &PriceLevel, when: &str, out: &mut Vec<CViolation>| {
        let listing: Vec<Order> = level.iter_orders().iter().map(|a| **a).collect();
        let sv: u128 = listing.iter().map(|o| o.visible_quantity() as u128).sum();
        let sh: u128 = listing.iter().map(|o| o.hidden_quantity() as u128).sum();
        if level.visible_quantity() as u128 != sv || level.hidden_quantity() as u128 != sh || level.order_count() != listing.len() {
            out.push(CViolation {
                oracle: COracle::Agg,
                msg: format!(
                    "{when}: aggregates visible={} hidden={} count={} but the {} listed orders sum to visible={} hidden={}",
                    level.visible_quantity(), level.hidden_quantity(), level.order_count(), listing.len(), sv, sh
                ),
            });
        }
        listing
    };
    let listing = agg(level, "after all threads returned", &mut v);
    // ---- C15: statistics vs events
    {
        let adds = p.churn as usize + p.burst as usize + ex.initial.len() + ex.calls.iter().filter(|c| matches!(c.result, CallResult::Added)).count();
        let removed = p.churn as usize
            + ex
            .calls
            .iter()
            .filter(|c| c.op.is_removal() && matches!(c.result, CallResult::Updated(Ok(Some(_)))))
            .count();
        let qty: u128 = ex
            .calls
            .iter()
            .map(|c| match &c.result {
                CallResult::Matched { fills, .. } => fills.iter().map(|f| f.1 as u128).sum::<u128>(),
                _ => 0,
            })
            .sum();
        // (through the handle taken before the program ran: it is the same statistics object)
        let s = ex.stats0.clone();
        let got = (s.orders_added(), s.orders_removed(), s.quantity_executed() as u128, s.value_executed() as u128);
        let fresh = level.stats();
        if (fresh.orders_added(), fresh.orders_removed(), fresh.quantity_executed() as u128, fresh.value_executed() as u128) != got {
            v.push(CViolation { oracle: COracle::Stats, msg: "a statistics handle obtained earlier and a fresh one report different figures at quiescence".into() });
        }
        let want = (adds, removed, qty, qty * p.price as u128);
        if got != want {
            v.push(CViolation {
                oracle: COracle::Stats,
                msg: format!("statistics (added, removed, quantity, value) = {:?} but the events say {:?}", got, want),
            });
        }
    }
    // ---- C14: transaction ids unique across all matches sharing the generator
    let mut txids: HashSet<uuid::Uuid> = HashSet::new();
    for c in &ex.calls {
        if let CallResult::Matched { fills, .. } = &c.result {
            for f in fills {
                if !txids.insert(f.2) {
                    v.push(CViolation { oracle: COracle::TxIds, msg: format!("transaction id {} was issued twice", f.2) });
                }
            }
        }
    }
    // ---- optional drain (C08)
    let mut drain_fills: Vec<(OrderId, u64)> = Vec::new();
    let mut drained = false;
    let mut final_listing = listing.clone();
    let mut drain_requested = 0u64;
    if drain {
        let total: u128 = listing.iter().map(|o| o.visible_quantity() as u128 + o.hidden_quantity() as u128).sum();
        let q = (total + 1).min(u64::MAX as u128) as u64;
        drain_requested = q;
        let taker = OrderId::from_u64(0xD7A1);
        match crate::hooks::with_step_budget(20_000 + 8 * p.churn as u64 + 40 * p.burst as u64, || level.match_order(q, taker, &ex.generator)) {
            Ok((r, _)) => {
                drained = true;
                let executed: u128 = r.transactions.as_vec().iter().map(|t| t.quantity as u128).sum();
                // expected: everything displayed plus every replenishable hidden unit
                let mut expect: u128 = 0;
                for o in &listing {
                    let mut cur = Some(*o);
                    let mut guard = 0;
                    while let Some(s) = cur {
                        let r = ref_match(&s, u64::MAX);
                        if r.consumed == 0 && r.next == Some(s) {
                            break;
                        }
                        expect += r.consumed as u128;
                        cur = r.next;
                        guard += 1;
                        if guard > 10_000 {
                            break;
                        }
                    }
                }
                for t in r.transactions.as_vec() {
                    drain_fills.push((t.maker_order_id, t.quantity));
                    if !txids.insert(t.transaction_id) {
                        v.push(CViolation { oracle: COracle::TxIds, msg: format!("transaction id {} was issued twice", t.transaction_id) });
                    }
                }
                if executed != expect {
                    v.push(CViolation {
                        oracle: COracle::Drain,
                        msg: format!(
                            "a draining match of {} executed {} but the {} listed orders hold {} displayed + replenishable units",
                            q, executed, listing.len(), expect
                        ),
                    });
                }
                if r.remaining_quantity == 0 {
                    v.push(CViolation { oracle: COracle::Drain, msg: "the draining match reports nothing remaining".into() });
                }
                final_listing = agg(level, "after the draining match", &mut v);
                if let Some(o) = final_listing.iter().find(|o| o.visible_quantity() > 0) {
                    v.push(CViolation {
                        oracle: COracle::Drain,
                        msg: format!("after the draining match {} is still listed with displayed quantity (unreachable by matching)", brief(o)),
                    });
                }
            }
            Err(e) => v.push(CViolation { oracle: COracle::Crash, msg: format!("draining match {e}") }),
        }
    }
    // ---- per-order linearization (C03 b, C08, C13 part 2)
    let mut unjudged = 0u64;
    let final_by_id: HashMap<OrderId, Order> = final_listing.iter().map(|o| (o.id(), *o)).collect();
    for (ui, id) in ex.universe.iter().enumerate() {
        let mut events: Vec<Event> = Vec::new();
        let initial = ex.initial.get(ui).copied();
        for (ci, c) in ex.calls.iter().enumerate() {
            match (&c.op, &c.result) {
                (TOp::Add(_), CallResult::Added) if c.id == Some(*id) => {
                    events.push(Event { ev: Ev::Add { order: c.order.unwrap() }, start: c.start, end: c.end, call: ci, seq: 0 });
                }
                (TOp::Match(_), CallResult::Matched { requested, fills, .. }) => {
                    let mut rem = *requested;
                    for (k, f) in fills.iter().enumerate() {
                        if f.0 == *id {
                            events.push(Event { ev: Ev::Fill { qty: f.1, taker_remaining: rem }, start: c.start, end: c.end, call: ci, seq: k });
                        }
                        rem = rem.saturating_sub(f.1);
                    }
                }
                (op, CallResult::Updated(Ok(Some(o)))) if op.is_amend() && c.id == Some(*id) => {
                    events.push(Event { ev: Ev::Amend { new_q: op.amend_qty().unwrap(), returned: *o }, start: c.start, end: c.end, call: ci, seq: 0 });
                }
                (op, CallResult::Updated(Ok(Some(o)))) if op.is_removal() && c.id == Some(*id) => {
                    events.push(Event { ev: Ev::Remove { returned: *o }, start: c.start, end: c.end, call: ci, seq: 0 });
                }
                _ => {}
            }
        }
        if drained {
            let mut rem = drain_requested;
            for (k, f) in drain_fills.iter().enumerate() {
                if f.0 == *id {
                    events.push(Event { ev: Ev::Fill { qty: f.1, taker_remaining: rem }, start: u64::MAX - 1, end: u64::MAX, call: usize::MAX, seq: k });
                }
                rem = rem.saturating_sub(f.1);
            }
        }
        let fin = final_by_id.get(id).copied();
        if events.len() > 24 {
            unjudged += 1; // beyond the search bound; not judged (counted)
            continue;
        }
        let any_match = drained || ex.calls.iter().any(|c| matches!(c.op, TOp::Match(_)));
        if !linearize(initial, &events, fin, any_match) {
            v.push(CViolation {
                oracle: COracle::Linear,
                msg: format!(
                    "order {}: no sequential explanation: initial {:?}, events {:?}, final {:?} — a unit was executed twice, handed out twice, or lost",
                    id,
                    initial.as_ref().map(brief),
                    events.iter().map(|e| format!("{:?}@[{},{}]", e.ev_brief(), e.start, e.end)).collect::<Vec<_>>(),
                    fin.as_ref().map(brief)
                ),
            });
        }
    }
    // ---- C13 part 1: not-found answers
    let mut cancel_overlapping = false;
    for (ci, c) in ex.calls.iter().enumerate() {
        let is_cancel_or_amend = c.op.is_removal() || c.op.is_amend();
        if !is_cancel_or_amend {
            continue;
        }
        if c.overlapped_same_id {
            cancel_overlapping = true;
        }
        if !matches!(c.result, CallResult::Updated(Ok(None))) {
            continue;
        }
        let id = c.id.unwrap();
        let ui = ex.universe.iter().position(|x| *x == id).unwrap();
        // was X resting before the call began?
        let added_before = ui < ex.initial.len()
            || ex.calls.iter().any(|d| matches!(d.result, CallResult::Added) && d.id == Some(id) && d.end < c.start);
        if !added_before {
            continue;
        }
        // removals / complete fills of X that could explain "not found": any that started before c ended
        let explained = ex.calls.iter().enumerate().any(|(di, d)| {
            if di == ci || d.start > c.end {
                return false;
            }
            match (&d.op, &d.result) {
                (op, CallResult::Updated(Ok(Some(_)))) if op.is_removal() => d.id == Some(id),
                (TOp::Match(_), CallResult::Matched { filled, .. }) => filled.contains(&id),
                _ => false,
            }
        });
        if explained {
            continue;
        }
        // still in the book after the call returned?
        let still = final_by_id.contains_key(&id)
            || listing.iter().any(|o| o.id() == id)
            || drain_fills.iter().any(|f| f.0 == id)
            || ex.calls.iter().any(|d| {
                d.start > c.end
                    && match (&d.op, &d.result) {
                        (TOp::Match(_), CallResult::Matched { fills, .. }) => fills.iter().any(|f| f.0 == id),
                        (_, CallResult::Updated(Ok(Some(_)))) => d.id == Some(id),
                        _ => false,
                    }
            });
        if !still {
            continue;
        }
        if !ex.with_probes {
            continue;
        }
        // who could have been holding the order outside the map while this call looked for it?
        // only a match that traded it (or any match, if it showed nothing and could merely be set
        // aside) or another amendment of it, running at the same time (known finding KF-C13-1)
        let shows_nothing = ex
            .initial
            .get(ui)
            .map(|o| o.visible_quantity() == 0)
            .unwrap_or(false)
            || ex.calls.iter().any(|d| d.id == Some(id) && d.order.map(|o| o.visible_quantity() == 0).unwrap_or(false));
        let holder_running = ex.calls.iter().enumerate().any(|(di, d)| {
            if di == ci || d.start > c.end || d.end < c.start {
                return false;
            }
            match (&d.op, &d.result) {
                (TOp::Match(_), CallResult::Matched { fills, .. }) => shows_nothing || fills.iter().any(|f| f.0 == id),
                (op, _) if op.is_amend() => d.id == Some(id),
                _ => false,
            }
        });
        match c.listed_at_last_lookup {
            Some(false) if !holder_running => v.push(CViolation {
                oracle: COracle::NotFound,
                msg: format!(
                    "thread {} {:?} on {} answered not-found: the order was out of the book at its lookup although no match trading it and no amendment of it was running (and nothing removed it)",
                    c.tid, c.op, id
                ),
            }),
            Some(true) => v.push(CViolation {
                oracle: COracle::NotFound,
                msg: format!(
                    "thread {} {:?} on {} answered not-found although the order was in the book at its last lookup step and nothing removed it",
                    c.tid, c.op, id
                ),
            }),
            Some(false) => kf += 1, // held outside the map by a matcher / another amend: KF-C13-1
            None => {
                // no lookup step observed at all: the call answered without looking
                v.push(CViolation {
                    oracle: COracle::NotFound,
                    msg: format!("thread {} {:?} on {} answered not-found without looking the order up", c.tid, c.op, id),
                });
            }
        }
    }
    Judgement { violations: v, kf_c13_1: kf, drained, cancel_overlapping, txids: txids.len(), unjudged_orders: unjudged }
}

impl Event {
    fn ev_brief(&self) -> String {
        match &self.ev {
            Ev::Add { order } => format!("Add({})", brief(order)),
            Ev::Fill { qty, taker_remaining } => format!("Fill({qty} of taker {taker_remaining})"),
            Ev::Amend { new_q, returned } => format!("Amend({new_q})->{}", brief(returned)),
            Ev::Remove { returned } => format!("Remove->{}", brief(returned)),
        }
    }
}

pub fn describe(p: &Program, ex: &Execution) -> serde_json::Value {
    serde_json::json!({
        "price": p.price,
        "preload": ex.initial.iter().map(brief).collect::<Vec<_>>(),
        "threads": p.threads.iter().map(|t| t.iter().map(|o| format!("{:?}", o)).collect::<Vec<_>>()).collect::<Vec<_>>(),
        "schedule": format!("{:?}", p.schedule),
        "steps": ex.info.steps,
        "context_switches": ex.info.switches,
        "calls": ex.calls.iter().map(|c| format!("T{} [{}..{}] {:?} -> {}", c.tid, c.start, c.end, c.op, match &c.result {
            CallResult::Added => "added".to_string(),
            CallResult::Matched { fills, remaining, .. } => format!("fills {:?} remaining {}", fills.iter().map(|f| (crate::spec::short_id(f.0), f.1)).collect::<Vec<_>>(), remaining),
            CallResult::Updated(r) => format!("{:?}", r.as_ref().map(|o| o.as_ref().map(brief))),
            CallResult::Read { vis, hid, count } => format!("read {vis}/{hid}/{count}"),
            CallResult::Panicked(m) => format!("PANIC {m}"),
        })).collect::<Vec<_>>(),
    })
}
