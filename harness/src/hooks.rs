//! Small uses of the /repo `verif` hook that do not need the full scheduler:
//! a step counter with a budget (termination oracle, C06) and step tracing.

use pricelevel::verif::{set_thread_hook, Step};
use std::cell::Cell;
use std::rc::Rc;

/// Panic payload used to abort a call that exceeded its step budget.
#[derive(Debug)]
pub struct BudgetExceeded {
    pub budget: u64,
}

/// Run `f` with a budget of shared-memory steps. If the code under test performs more
/// than `budget` atomic / map / queue operations the call is aborted by unwinding and
/// `Err(BudgetExceeded)` is returned. Other panics are returned as `Err(Ok(message))`.
pub fn with_step_budget<R>(budget: u64, f: impl FnOnce() -> R) -> Result<(R, u64), StepAbort> {
    let count = Rc::new(Cell::new(0u64));
    let c2 = count.clone();
    set_thread_hook(Some(Rc::new(move |_s: &Step| {
        let n = c2.get() + 1;
        c2.set(n);
        if n > budget {
            std::panic::panic_any(BudgetExceeded { budget });
        }
    })));
    let r = std::panic::catch_unwind(std::panic::AssertUnwindSafe(f));
    set_thread_hook(None);
    match r {
        Ok(v) => Ok((v, count.get())),
        Err(p) => {
            if p.downcast_ref::<BudgetExceeded>().is_some() {
                Err(StepAbort::Budget(budget))
            } else {
                Err(StepAbort::Panic(format!(
                    "{} at {}",
                    crate::runner::panic_message(&p),
                    crate::runner::last_panic_loc()
                )))
            }
        }
    }
}

#[derive(Debug, Clone)]
pub enum StepAbort {
    Budget(u64),
    Panic(String),
}

impl std::fmt::Display for StepAbort {
    fn fmt(&self, f: &mut std::fmt::Formatter<'_>) -> std::fmt::Result {
        match self {
            StepAbort::Budget(b) => write!(f, "did not return within {b} shared-memory steps"),
            StepAbort::Panic(m) => write!(f, "panicked: {m}"),
        }
    }
}
