//! plv — property-based checks for joaquinbejar/PriceLevel (see /verif/DESIGN.md).
//!
//!   plv <Cxx> <quick|thorough>        run a check, write evidence/<Cxx>.json
//!   plv <Cxx> --replay <file>         re-execute a saved failing case
//!
//! exit 0: held on everything explored; exit 1: "VIOLATION property=<id> replay=<path>";
//! exit 2: infrastructure problem (never a violation).


use plv::checks;
use plv::runner::*;

fn verif_root() -> String {
    std::env::var("VERIF_ROOT").unwrap_or_else(|_| "/verif".to_string())
}

fn usage() -> ! {
    eprintln!("usage: plv <Cxx> <quick|thorough> | plv <Cxx> --replay <file>");
    std::process::exit(2);
}

fn run_check(id: &str, cfg: &RunCfg) -> Option<Report> {
    Some(match id {
        "C01" => checks::hist::run(cfg, &checks::hist::C01),
        "C02" => checks::hist::run(cfg, &checks::hist::C02),
        "C03" => checks::concur::run(cfg, &checks::concur::C03),
        "C04" => checks::hist::run(cfg, &checks::hist::C04),
        "C04X" => checks::hist::run(cfg, &checks::hist::C04X),
        "C05" => checks::c05::run(cfg),
        "C06" => checks::hist::run(cfg, &checks::hist::C06),
        "C07" => checks::hist::run(cfg, &checks::hist::C07),
        "C08" => checks::concur::run(cfg, &checks::concur::C08),
        "C09" => checks::c09::run(cfg),
        "C10" => checks::c10::run(cfg),
        "C11" => checks::c11::run(cfg),
        "C12" => checks::concur::run(cfg, &checks::concur::C12),
        "C13" => checks::concur::run(cfg, &checks::concur::C13),
        "C14" => checks::concur::run_c14(cfg),
        "C15" => {
            let mut rep = checks::hist::run(cfg, &checks::hist::C15);
            if !rep.failed() {
                checks::concur::run_into(cfg, &checks::concur::C15C, &mut rep);
            }
            rep
        }
        "C16" => checks::codec::run(cfg, false),
        "C17" => checks::codec::run(cfg, true),
        "C18" => checks::c18::run(cfg),
        "C19" => checks::c19::run(cfg),
        _ => return None,
    })
}

fn replay_check(id: &str, v: &serde_json::Value, cfg: &RunCfg) -> Option<Result<(), String>> {
    if v["engine"] == "fuzz_bytes" {
        if let Some(o) = v["oracle"].as_str() {
            std::env::set_var("PLV_ORACLE", o);
        }
        return Some(plv::fuzzdec::replay_bytes(v["target"].as_str().unwrap_or(""), v["hex"].as_str().unwrap_or("")));
    }
    Some(match id {
        "C01" => checks::hist::replay(cfg, &checks::hist::C01, v),
        "C02" => checks::hist::replay(cfg, &checks::hist::C02, v),
        "C03" => checks::concur::replay(cfg, &checks::concur::C03, v),
        "C04" => checks::hist::replay(cfg, &checks::hist::C04, v),
        "C04X" => checks::hist::replay(cfg, &checks::hist::C04X, v),
        "C05" => checks::c05::replay(v),
        "C06" => checks::hist::replay(cfg, &checks::hist::C06, v),
        "C07" => checks::hist::replay(cfg, &checks::hist::C07, v),
        "C08" => checks::concur::replay(cfg, &checks::concur::C08, v),
        "C09" => checks::c09::replay(v),
        "C10" => checks::c10::replay(cfg, v),
        "C11" => checks::c11::replay(cfg, v),
        "C12" => checks::concur::replay(cfg, &checks::concur::C12, v),
        "C13" => checks::concur::replay(cfg, &checks::concur::C13, v),
        "C14" => checks::concur::replay(cfg, &checks::concur::C14L, v),
        "C15" => {
            if v["engine"] == "schedule" {
                checks::concur::replay(cfg, &checks::concur::C15C, v)
            } else {
                checks::hist::replay(cfg, &checks::hist::C15, v)
            }
        }
        "C16" => checks::codec::replay(v, false),
        "C17" => checks::codec::replay(v, true),
        "C18" => checks::c18::replay(v),
        "C19" => checks::c19::replay(cfg, v),
        _ => return None,
    })
}

fn static_id(id: &str) -> &'static str {
    Box::leak(id.to_string().into_boxed_str())
}

fn main() {
    let args: Vec<String> = std::env::args().collect();
    if args.len() < 3 {
        usage();
    }
    install_quiet_panic_hook();
    let id = args[1].as_str();
    let root = verif_root();
    if id == "c18-one" {
        // child mode of C18's huge-input tier: parse one input (first byte = entry point) on the main
        // thread; exit 0 if the parser returned, 101 if it panicked; an abort kills the process
        let data = std::fs::read(&args[2]).unwrap_or_default();
        std::panic::set_hook(Box::new(|info| eprintln!("panic: {info}")));
        if data.is_empty() {
            std::process::exit(0);
        }
        // on a thread with the default 2 MiB stack of a spawned thread (where library users parse)
        let h = std::thread::Builder::new()
            .stack_size(2 << 20)
            .spawn(move || {
                let eps = checks::c18::entry_points();
                let text = String::from_utf8_lossy(&data[1..]).into_owned();
                let ep = &eps[data[0] as usize % eps.len()];
                let _ = (ep.parse)(&text);
            })
            .expect("spawn parser thread");
        match h.join() {
            Ok(()) => std::process::exit(0),
            Err(_) => std::process::exit(101),
        }
    }
    if id == "fuzzcase" {
        // plv fuzzcase <target> <artifact file> <Cxx> : turn a libFuzzer artifact into a replay file
        let target = args[2].as_str();
        let file = args.get(3).unwrap_or_else(|| usage());
        let prop = args.get(4).map(|s| s.as_str()).unwrap_or("C18");
        let data = std::fs::read(file).unwrap_or_else(|e| {
            eprintln!("cannot read {file}: {e}");
            std::process::exit(2)
        });
        let hex: String = data.iter().map(|b| format!("{:02x}", b)).collect();
        let mut v = serde_json::json!({"property": prop, "engine": "fuzz_bytes", "target": target, "hex": hex});
        if let Ok(o) = std::env::var("PLV_ORACLE") {
            v["oracle"] = serde_json::json!(o);
        }
        if target == "parse_any" {
            if let Some((entry, text)) = plv::fuzzdec::parse_case_parts(&data) {
                v["decoded"] = serde_json::json!({"entry": entry, "text": text});
            }
        }
        let path = save_replay(prop, &v, &format!("{root}/replays"));
        println!("{path}");
        std::process::exit(0);
    }
    if id == "corpus" {
        // plv corpus <target> <dir> : write a small deterministic seed corpus
        let target = args[2].as_str();
        let dir = args.get(3).unwrap_or_else(|| usage());
        let _ = std::fs::create_dir_all(dir);
        let mut n = 0;
        if target == "parse_any" {
            use proptest::strategy::{Strategy, ValueTree};
            let mut runner = proptest::test_runner::TestRunner::deterministic();
            let strat = checks::codec::val();
            for i in 0..300 {
                let v = strat.new_tree(&mut runner).unwrap().current();
                let (t, j, te, je) = checks::c18::encodings(&v);
                if let Some(t) = t {
                    if t.len() < 3000 {
                        let mut b = vec![te as u8];
                        b.extend_from_slice(t.as_bytes());
                        std::fs::write(format!("{dir}/t{i:03}"), b).unwrap();
                        n += 1;
                    }
                }
                if j.len() < 3000 {
                    let mut b = vec![je as u8];
                    b.extend_from_slice(j.as_bytes());
                    std::fs::write(format!("{dir}/j{i:03}"), b).unwrap();
                    n += 1;
                }
            }
        } else {
            let mut x = 0x1234_5678_9abc_def0u64;
            for i in 0..96 {
                let len = 8 + (i * 5) % 200;
                let bytes: Vec<u8> = (0..len)
                    .map(|_| {
                        x = splitmix(x);
                        (x >> 24) as u8
                    })
                    .collect();
                std::fs::write(format!("{dir}/r{i:03}"), bytes).unwrap();
                n += 1;
            }
        }
        println!("wrote {n} corpus files to {dir}");
        std::process::exit(0);
    }
    if id == "fuzz-merge" {
        // plv fuzz-merge <Cxx> <summary.json> : add the libFuzzer campaign's figures to the evidence file
        let prop = args[2].as_str();
        let summary: serde_json::Value = serde_json::from_str(&std::fs::read_to_string(&args[3]).unwrap_or_default()).unwrap_or(serde_json::json!({}));
        let path = std::env::var("VERIF_EVIDENCE").unwrap_or_else(|_| format!("{root}/evidence/{prop}.json"));
        if let Ok(t) = std::fs::read_to_string(&path) {
            if let Ok(mut ev) = serde_json::from_str::<serde_json::Value>(&t) {
                let execs = summary["executions"].as_u64().unwrap_or(0);
                ev["coverage"]["libfuzzer"] = summary.clone();
                if let Some(e) = ev["coverage"]["evaluations"].as_u64() {
                    ev["coverage"]["evaluations"] = serde_json::json!(e + execs);
                }
                if summary["crashes"].as_u64().unwrap_or(0) > 0 {
                    ev["violations"] = serde_json::json!(1);
                }
                std::fs::write(&path, serde_json::to_string_pretty(&ev).unwrap()).unwrap();
            }
        }
        std::process::exit(0);
    }
    if id == "export-plain" {
        // plv export-plain <Cxx> <quick|thorough> <out.json> : histories for the replay on the unhooked build
        let prop = args[2].as_str();
        let tier = if args.get(3).map(|s| s.as_str()) == Some("thorough") { Tier::Thorough } else { Tier::Quick };
        let hc = match prop {
            "C01" => &checks::hist::C01,
            "C02" => &checks::hist::C02,
            "C06" => &checks::hist::C06,
            "C07" => &checks::hist::C07,
            _ => {
                eprintln!("export-plain: no history check for {prop}");
                std::process::exit(2)
            }
        };
        let seed = std::env::var("VERIF_SEED").ok().and_then(|s| s.trim().parse::<i128>().ok()).map(|x| x as u64).unwrap_or(20_261_004);
        let scale: f64 = std::env::var("VERIF_SCALE").ok().and_then(|s| s.parse().ok()).unwrap_or(1.0);
        let n = ((if tier == Tier::Thorough { 150_000.0 } else { 6_000.0 }) * scale).max(50.0) as usize;
        let v = checks::hist::export_plain(hc, tier, seed, n);
        std::fs::write(&args[4], serde_json::to_string(&v).unwrap()).unwrap();
        println!("exported {} histories ({} calls) for the unhooked-build replay", n, v["calls"]);
        std::process::exit(0);
    }
    if id == "plain-merge" {
        // plv plain-merge <Cxx> <summary.json> : add the unhooked-build replay's figures to the evidence file
        let prop = args[2].as_str();
        let summary: serde_json::Value = serde_json::from_str(&std::fs::read_to_string(&args[3]).unwrap_or_default()).unwrap_or(serde_json::json!({}));
        let path = std::env::var("VERIF_EVIDENCE").unwrap_or_else(|_| format!("{root}/evidence/{prop}.json"));
        if let Ok(t) = std::fs::read_to_string(&path) {
            if let Ok(mut ev) = serde_json::from_str::<serde_json::Value>(&t) {
                ev["coverage"]["unhooked_build_replay"] = summary.clone();
                if let Some(e) = ev["coverage"]["evaluations"].as_u64() {
                    ev["coverage"]["evaluations"] = serde_json::json!(e + summary["cases"].as_u64().unwrap_or(0));
                }
                if summary["verdict"] != "identical" {
                    ev["violations"] = serde_json::json!(1);
                }
                std::fs::write(&path, serde_json::to_string_pretty(&ev).unwrap()).unwrap();
            }
        }
        std::process::exit(0);
    }
    if id == "witnesses" {
        // (re)write the hand-written witness replay files of the known findings
        let dir = format!("{root}/known");
        let _ = std::fs::create_dir_all(&dir);
        for (kf, prop, h) in checks::hist::witnesses() {
            let v = serde_json::json!({"property": prop, "engine": "history", "case": h});
            std::fs::write(format!("{dir}/{kf}.json"), serde_json::to_string_pretty(&v).unwrap()).unwrap();
            println!("wrote {dir}/{kf}.json");
        }
        let v = serde_json::json!({"property": "C13", "engine": "schedule", "case": checks::concur::witness_kf_c13_1()});
        std::fs::write(format!("{dir}/KF-C13-1.json"), serde_json::to_string_pretty(&v).unwrap()).unwrap();
        println!("wrote {dir}/KF-C13-1.json");
        let v = serde_json::json!({"property": "C19", "engine": "queue_history", "case": checks::c19::witness_kf()});
        std::fs::write(format!("{dir}/KF-C19-1.json"), serde_json::to_string_pretty(&v).unwrap()).unwrap();
        println!("wrote {dir}/KF-C19-1.json");
        let v = serde_json::json!({"property": "C11", "engine": "restore_differential", "case": checks::c11::witness_kf()});
        std::fs::write(format!("{dir}/KF-C11-1.json"), serde_json::to_string_pretty(&v).unwrap()).unwrap();
        println!("wrote {dir}/KF-C11-1.json");
        std::process::exit(0);
    }
    if args[2] == "--replay" {
        let path = args.get(3).unwrap_or_else(|| usage());
        let text = std::fs::read_to_string(path).unwrap_or_else(|e| {
            eprintln!("cannot read {path}: {e}");
            std::process::exit(2)
        });
        let v: serde_json::Value = serde_json::from_str(&text).unwrap_or_else(|e| {
            eprintln!("bad replay file {path}: {e}");
            std::process::exit(2)
        });
        let rcfg = RunCfg { property: static_id(id), tier: Tier::Quick, seed: 0, workers: 1, scale: 1.0, root: root.clone() };
        // (a case may have been found by a worker running under the evaluate-everything log
        // subscriber: replay plainly first, then under that subscriber)
        let verdict = match replay_check(id, &v, &rcfg) {
            Some(Ok(())) => plv::runner::maybe_traced(true, || replay_check(id, &v, &rcfg)),
            other => other,
        };
        match verdict {
            None => {
                eprintln!("unknown property {id}");
                std::process::exit(2)
            }
            Some(Ok(())) => {
                println!("replay {path}: property {id} held");
                std::process::exit(0)
            }
            Some(Err(reason)) => {
                println!("replay {path}: {reason}");
                println!("VIOLATION property={id} replay={path}");
                std::process::exit(1)
            }
        }
    }
    let tier = match args[2].as_str() {
        "quick" => Tier::Quick,
        "thorough" => Tier::Thorough,
        _ => usage(),
    };
    let seed = std::env::var("VERIF_SEED")
        .ok()
        .and_then(|s| s.trim().parse::<i128>().ok())
        .map(|x| x as u64)
        .unwrap_or(20_261_004);
    let workers = std::env::var("VERIF_WORKERS")
        .ok()
        .and_then(|s| s.parse().ok())
        .unwrap_or_else(|| std::thread::available_parallelism().map(|n| n.get()).unwrap_or(8).min(16));
    let scale = std::env::var("VERIF_SCALE").ok().and_then(|s| s.parse().ok()).unwrap_or(1.0);
    let cfg = RunCfg { property: static_id(id), tier, seed, workers, scale, root: root.clone() };
    let timer = Timer::start();
    // seconds-long replay tier: saved minimal cases of earlier findings (repaired defects and
    // seeded changes), re-executed without the generators before the search starts
    let mut regress_fail: Option<(String, String)> = None;
    let mut regress_n = 0u64;
    if let Ok(rd) = std::fs::read_dir(format!("{root}/regress/{id}")) {
        let mut files: Vec<_> = rd.filter_map(|e| e.ok()).map(|e| e.path()).filter(|p| p.extension().map(|x| x == "json").unwrap_or(false)).collect();
        files.sort();
        for f in files {
            let Ok(text) = std::fs::read_to_string(&f) else { continue };
            let Ok(v) = serde_json::from_str::<serde_json::Value>(&text) else { continue };
            if v["engine"] == "plain_replay" {
                continue; // replayed on the unhooked build by ./check
            }
            regress_n += 1;
            if let Some(Err(reason)) = replay_check(id, &v, &cfg) {
                if regress_fail.is_none() {
                    regress_fail = Some((reason, f.display().to_string()));
                }
            }
        }
    }
    let mut rep = match run_check(id, &cfg) {
        Some(r) => r,
        None => {
            eprintln!("unknown property {id}");
            std::process::exit(2)
        }
    };
    rep.extra.insert("regression_replays".into(), serde_json::json!(regress_n));
    rep.stats.evaluations += regress_n;
    let wall = timer.secs();
    if let Some((reason, path)) = &regress_fail {
        if rep.violation.is_none() {
            rep.violation = Some((reason.clone(), serde_json::json!({"regression_file": path})));
            rep.extra.insert("violation_from_regression_file".into(), serde_json::json!(path));
        }
    }
    let evidence = std::env::var("VERIF_EVIDENCE").unwrap_or_else(|_| format!("{root}/evidence/{id}.json"));
    write_evidence(&cfg, &rep, wall, &evidence);
    for (kid, text) in &rep.known_lines {
        println!("KNOWN-FINDING: property={id} id={kid} {text}");
    }
    println!(
        "{id} {}: {} cases, {} distinct non-trivial, {:.1}s, seed {}",
        tier.name(),
        rep.stats.evaluations,
        rep.stats.nontrivial.len(),
        wall,
        seed
    );
    if let Some((reason, path)) = &regress_fail {
        println!("violation (saved regression case): {reason}");
        println!("VIOLATION property={id} replay={path}");
        std::process::exit(1);
    }
    if let Some((reason, replay)) = &rep.violation {
        let path = save_replay(id, replay, &format!("{root}/replays"));
        println!("violation: {reason}");
        println!("VIOLATION property={id} replay={path}");
        std::process::exit(1);
    }
    std::process::exit(0);
}
