//! Known findings: genuine defects recorded rather than repaired (/verif/known_findings.json).
//! The file is read-only at run time. A violation matching a *listed* signature is counted and
//! reported as KNOWN-FINDING; if an entry is removed from the file the same violation is
//! reported as a VIOLATION again. "fixed" entries suppress nothing.

use serde::Deserialize;

#[derive(Clone, Debug, Deserialize)]
pub struct Finding {
    pub id: String,
    pub property: String,
    pub what: String,
    /// replay file (relative to /verif) whose execution exhibits the finding
    pub witness: String,
}

#[derive(Clone, Debug, Deserialize, Default)]
pub struct KnownFile {
    #[serde(default)]
    pub findings: Vec<Finding>,
    #[serde(default)]
    pub fixed: Vec<String>,
}

pub fn load(root: &str) -> KnownFile {
    let path = format!("{root}/known_findings.json");
    match std::fs::read_to_string(&path) {
        Ok(t) => match serde_json::from_str(&t) {
            Ok(k) => k,
            Err(e) => {
                eprintln!("cannot parse {path}: {e}");
                std::process::exit(2);
            }
        },
        Err(_) => KnownFile::default(),
    }
}

impl KnownFile {
    pub fn listed(&self, property: &str, id: &str) -> bool {
        self.findings.iter().any(|f| f.property == property && f.id == id)
    }
    pub fn for_property(&self, property: &str) -> Vec<&Finding> {
        self.findings.iter().filter(|f| f.property == property).collect()
    }
}

pub fn read_witness(root: &str, f: &Finding) -> Option<serde_json::Value> {
    let path = format!("{root}/{}", f.witness);
    let t = std::fs::read_to_string(path).ok()?;
    serde_json::from_str(&t).ok()
}
