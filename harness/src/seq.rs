//! Engine E1: single-threaded histories on one level, interpreted step by step against
//! the trace-driven reference model (DESIGN.md §4.2), with every oracle evaluated after
//! every operation. Each property check picks the oracles it is about.

use crate::gen::{self, pick, OrderGenCfg, Profile};
use crate::hooks::{with_step_budget, StepAbort};
use crate::model::{amend_ok, ref_match, rounds_estimate, silent_visit, Order};
use crate::runner::catch;
use crate::spec::*;
use pricelevel::{
    MatchResult, OrderId, OrderUpdate, PriceLevel, PriceLevelData, PriceLevelSnapshot, Side,
    UuidGenerator,
};
use proptest::prelude::*;
use serde::{Deserialize, Serialize};
use std::collections::{BTreeMap, HashMap, HashSet, VecDeque};
use std::str::FromStr;
use std::sync::Arc;

// ------------------------------------------------------------------------------------
// Case description

#[derive(Clone, Copy, Debug, PartialEq, Eq, Hash, Serialize, Deserialize)]
pub enum Target {
    /// the k-th currently resting order (monotone index; falls back to the pool if none rests)
    Resting(u16),
    /// any id of the pool (may be absent from the book)
    Pool(u16),
}

#[derive(Clone, Copy, Debug, PartialEq, Eq, Hash, Serialize, Deserialize)]
pub enum MatchSize {
    Exact(u64),
    /// the displayed quantity of the first k listed orders together
    FirstK(u8),
    /// everything displayed and hidden, plus one
    AllPlus1,
    Zero,
    Huge,
    /// exactly the quantity of the first k fills a full sweep would make (so the match ends on a
    /// fill / replenishment boundary, wherever in the queue that is)
    AfterFills(u8),
}

#[derive(Clone, Copy, Debug, PartialEq, Eq, Hash, Serialize, Deserialize)]
pub enum ReadKind {
    Aggregates,
    IterOrders,
    Snapshot,
    Package,
    SnapshotJson,
    Display,
    SerdeJson,
    Stats,
    Data,
    /// `{:?}` of the level (and of its snapshot)
    DebugFmt,
    /// JSON serialization of the level, its snapshot and its package into a writer that fails part-way
    FailedWrite,
}

pub const ALL_READS: [ReadKind; 11] = [
    ReadKind::Aggregates,
    ReadKind::IterOrders,
    ReadKind::Snapshot,
    ReadKind::Package,
    ReadKind::SnapshotJson,
    ReadKind::Display,
    ReadKind::SerdeJson,
    ReadKind::Stats,
    ReadKind::Data,
    ReadKind::DebugFmt,
    ReadKind::FailedWrite,
];

#[derive(Clone, Copy, Debug, PartialEq, Eq, Hash, Serialize, Deserialize)]
pub enum RebuildPath {
    FromSnapshot,
    FromSnapshotRef,
    Package,
    Json,
    Serde,
    Text,
    Data,
}

pub const ALL_REBUILDS: [RebuildPath; 7] = [
    RebuildPath::FromSnapshot,
    RebuildPath::FromSnapshotRef,
    RebuildPath::Package,
    RebuildPath::Json,
    RebuildPath::Serde,
    RebuildPath::Text,
    RebuildPath::Data,
];

#[derive(Clone, Copy, Debug, PartialEq, Eq, Hash, Serialize, Deserialize)]
pub enum Op {
    Add { slot: u16, spec: OrderSpec },
    Match { size: MatchSize },
    /// a match whose taker id is taken from the id pool (it may equal a resting order's id)
    MatchAs { size: MatchSize, taker: u16 },
    Cancel { target: Target },
    UpdatePrice { target: Target, same: bool },
    UpdateQty { target: Target, qty: u64 },
    UpdatePQ { target: Target, same: bool, qty: u64 },
    Replace { target: Target, same: bool, qty: u64, buy: bool },
    Read(ReadKind),
    Rebuild(RebuildPath),
    /// two ordinary same-price amendments that move `d` units of displayed quantity from one
    /// resting order to another (the level's aggregates end up unchanged)
    Transfer { from: Target, to: Target, d: u64 },
    /// add `n` orders under fresh reserved ids (never re-used) and cancel each right away:
    /// leaves `n` stale tickets behind (reaches size thresholds random single ops never do)
    Churn {
        n: u32,
        spec: OrderSpec,
        /// ids from the ghost range (used by C07's twin so that the inserted churn does not shift
        /// the ids of the history's own bulk operations)
        #[serde(default)]
        ghost: bool,
    },
    /// amend one resting order `n` times at the same price (alternating between two quantities)
    AmendChurn { target: Target, n: u32 },
    /// add `n` orders under fresh reserved ids that stay resting
    Burst { n: u32, spec: OrderSpec },
    /// an operation on a *sibling* level (another `PriceLevel` with the same price, living next to
    /// the one under test, holding orders under the same ids): 0 add, 1 match, 2 cancel, 3 snapshot
    /// JSON round trip, 4 text round trip, 5 serde round trip. Nothing it does may show on the level
    /// under test (no state is shared between levels).
    Sibling { what: u8, slot: u16, spec: OrderSpec, qty: u64 },
    /// amend every resting order that shows nothing to `qty` displayed (same-price quantity
    /// amendments, in listing order or reversed; at most 64 of them)
    Revive { qty: u64, rev: bool },
    /// (metamorphic twin of C07) add an extra order under a reserved id ...
    GhostAdd { spec: OrderSpec },
    /// ... and take it out again right away: 0 cancel, 1 price move, 2 price+quantity to another
    /// price, 3 replace at another price. The pair must leave no trace in any other result.
    GhostRemove { via: u8 },
}

/// reserved ids for churn / burst orders (never part of a generated id pool, never re-used)
pub fn bulk_id(k: u64) -> OrderId {
    OrderId::from_u64(0xB0_1C00_0000_0000 + k)
}

/// the reserved id of the ghost order (never part of a generated id pool)
pub fn ghost_id() -> OrderId {
    OrderId::from_u64(0x6805_7000_0000_0001)
}

#[derive(Clone, Copy, Debug, PartialEq, Eq, Hash, Serialize, Deserialize)]
pub struct Ghost {
    pub at: u16,
    pub spec: OrderSpec,
    pub via: u8,
    /// 0: one ghost order; otherwise that many add+cancel pairs of extra orders (a `Churn`)
    #[serde(default)]
    pub pairs: u32,
}

#[derive(Clone, Copy, Debug, PartialEq, Eq, Hash, Serialize, Deserialize)]
pub enum TsMode {
    /// timestamps strictly increasing in arrival order (the spec's own value is ignored)
    Increasing,
    /// the generated value (ties, 0, u64::MAX, arbitrary)
    AsGiven,
}

#[derive(Clone, Debug, PartialEq, Eq, Hash, Serialize, Deserialize)]
pub struct History {
    /// may orders with nothing displayed be added (false: such adds are skipped)
    pub zeros: bool,
    pub price: u64,
    pub profile: Profile,
    pub ts_mode: TsMode,
    pub pool: Vec<IdSpec>,
    pub ops: Vec<Op>,
    /// optional ghost insertion for C07's "add + remove leaves no trace" twin run
    #[serde(default)]
    pub ghost: Option<Ghost>,
    /// the caller keeps every handle the API returns (Arcs from add_order / update_order /
    /// iter_orders / snapshot) alive until the end of the history instead of dropping them
    #[serde(default)]
    pub hold: bool,
    /// counter the transaction-id generator starts from (0 = fresh; otherwise restored through
    /// its public serde form, e.g. a persisted generator near the top of the counter range)
    #[serde(default)]
    pub gen_start: u64,
    /// quantities are NOT trimmed to keep the level's sums within 64 bits (only used where the
    /// oracle does not involve the aggregates: C04, C11); the aggregates may wrap
    #[serde(default)]
    pub wrap_ok: bool,
    /// bound on the replenishment rounds a single match may need (match sizes are clamped to it);
    /// 0 = the default of 120; rarely a power of two up to 2^17 (deep sweeps of one order)
    #[serde(default)]
    pub max_rounds: u32,
    /// after every operation the caller also makes this read-only call (a publisher that renders
    /// the level after each change); its content must describe the level as it then is
    #[serde(default)]
    pub read_every: Option<ReadKind>,
}

// ------------------------------------------------------------------------------------
// Generation

#[derive(Clone, Copy, Debug)]
pub struct HistCfg {
    pub zeros: bool,
    pub boundary_share: u32, // out of 10
    pub max_len: usize,
    pub w_add: u32,
    pub w_match: u32,
    pub w_cancel: u32,
    pub w_upd_price: u32,
    pub w_upd_qty: u32,
    pub w_upd_pq: u32,
    pub w_replace: u32,
    pub w_read: u32,
    pub w_rebuild: u32,
    /// bulk operations (churn of add+cancel pairs, bursts of resting orders)
    pub w_bulk: u32,
    /// allow sums beyond 64 bits in boundary-profile histories (History::wrap_ok)
    pub wrap_ok: bool,
    /// largest power of two for churn-type bulk sizes / for bursts of resting orders
    pub churn_pow: u32,
    pub burst_pow: u32,
    /// append a draining match at the end
    pub final_drain: bool,
    pub kind_weights: [u32; 7],
    /// share (out of 10) of histories with strictly increasing timestamps
    pub increasing_ts_share: u32,
    /// with `zeros` off: share (out of 10) of histories that allow zero quantities all the same
    pub zeros_share: u32,
}

impl HistCfg {
    pub fn general(max_len: usize) -> Self {
        HistCfg {
            zeros: true,
            boundary_share: 2,
            max_len,
            w_add: 30,
            w_match: 25,
            w_cancel: 6,
            w_upd_price: 4,
            w_upd_qty: 10,
            w_upd_pq: 4,
            w_replace: 4,
            w_read: 4,
            w_rebuild: 4,
            w_bulk: 1,
            wrap_ok: false,
            churn_pow: 14,
            burst_pow: 10,
            final_drain: false,
            kind_weights: [3, 4, 1, 2, 2, 2, 5],
            increasing_ts_share: 4,
            zeros_share: 0,
        }
    }
}

fn target() -> BoxedStrategy<Target> {
    prop_oneof![
        4 => any::<u16>().prop_map(Target::Resting),
        1 => any::<u16>().prop_map(Target::Pool),
    ]
    .boxed()
}

fn amend_qty(profile: Profile, zeros: bool) -> BoxedStrategy<u64> {
    match profile {
        Profile::Small => {
            if zeros {
                prop_oneof![2 => Just(0u64), 8 => gen::small_qty(false)].boxed()
            } else {
                gen::small_qty(false)
            }
        }
        Profile::Boundary => {
            if zeros {
                gen::boundary_u64()
            } else {
                gen::boundary_u64().prop_map(|x| x.max(1)).boxed()
            }
        }
    }
}

fn match_size(profile: Profile) -> BoxedStrategy<MatchSize> {
    let exact = match profile {
        Profile::Small => prop_oneof![6 => 1u64..=20, 3 => 1u64..=300].boxed(),
        Profile::Boundary => gen::boundary_u64(),
    };
    prop_oneof![
        6 => exact.prop_map(MatchSize::Exact),
        3 => (1u8..=4).prop_map(MatchSize::FirstK),
        2 => (1u8..=8).prop_map(MatchSize::AfterFills),
        2 => Just(MatchSize::AllPlus1),
        1 => Just(MatchSize::Zero),
        1 => Just(MatchSize::Huge),
    ]
    .boxed()
}

pub fn op_strategy(cfg: HistCfg, profile: Profile) -> BoxedStrategy<Op> {
    let ocfg = OrderGenCfg {
        profile,
        zero_display: cfg.zeros,
        zero_amount: cfg.zeros,
        kind_weights: cfg.kind_weights,
    };
    let mut v: Vec<(u32, BoxedStrategy<Op>)> = Vec::new();
    v.push((
        cfg.w_add,
        (any::<u16>(), gen::order_spec(ocfg))
            .prop_map(|(slot, spec)| Op::Add { slot, spec })
            .boxed(),
    ));
    v.push((
        cfg.w_match,
        match_size(profile).prop_map(|size| Op::Match { size }).boxed(),
    ));
    v.push((
        (cfg.w_match / 8).max(if cfg.w_match > 0 { 1 } else { 0 }),
        (match_size(profile), any::<u16>()).prop_map(|(size, taker)| Op::MatchAs { size, taker }).boxed(),
    ));
    v.push((cfg.w_cancel, target().prop_map(|target| Op::Cancel { target }).boxed()));
    v.push((
        cfg.w_upd_price,
        (target(), prop_oneof![1 => Just(true), 2 => Just(false)])
            .prop_map(|(target, same)| Op::UpdatePrice { target, same })
            .boxed(),
    ));
    v.push((
        cfg.w_upd_qty,
        (target(), amend_qty(profile, cfg.zeros))
            .prop_map(|(target, qty)| Op::UpdateQty { target, qty })
            .boxed(),
    ));
    v.push((
        cfg.w_upd_pq,
        (target(), any::<bool>(), amend_qty(profile, cfg.zeros))
            .prop_map(|(target, same, qty)| Op::UpdatePQ { target, same, qty })
            .boxed(),
    ));
    v.push((
        cfg.w_replace,
        (target(), any::<bool>(), amend_qty(profile, cfg.zeros), any::<bool>())
            .prop_map(|(target, same, qty, buy)| Op::Replace { target, same, qty, buy })
            .boxed(),
    ));
    v.push((
        cfg.w_read,
        proptest::sample::select(ALL_READS.to_vec()).prop_map(Op::Read).boxed(),
    ));
    v.push((
        cfg.w_rebuild,
        proptest::sample::select(ALL_REBUILDS.to_vec()).prop_map(Op::Rebuild).boxed(),
    ));
    let bulk_n = gen::size_class(cfg.churn_pow);
    let burst_n = gen::size_class(cfg.burst_pow);
    v.push((
        cfg.w_bulk * 3,
        (target(), target(), 1u64..=6).prop_map(|(from, to, d)| Op::Transfer { from, to, d }).boxed(),
    ));
    v.push((
        cfg.w_bulk,
        (target(), gen::size_class(cfg.churn_pow))
            .prop_map(|(target, n)| Op::AmendChurn { target, n })
            .boxed(),
    ));
    v.push((
        cfg.w_bulk,
        (any::<bool>(), bulk_n, burst_n, gen::order_spec(OrderGenCfg { profile: Profile::Small, zero_display: cfg.zeros, zero_amount: cfg.zeros, kind_weights: cfg.kind_weights }))
            .prop_map(|(churn, n, bn, spec)| if churn { Op::Churn { n, spec, ghost: false } } else { Op::Burst { n: bn, spec } })
            .boxed(),
    ));
    v.push((
        (cfg.w_add / 12).max(1),
        (0u8..6, any::<u16>(), gen::order_spec(OrderGenCfg { profile: Profile::Small, zero_display: cfg.zeros, zero_amount: cfg.zeros, kind_weights: cfg.kind_weights }), 1u64..=12)
            .prop_map(|(what, slot, spec, qty)| Op::Sibling { what, slot, spec, qty })
            .boxed(),
    ));
    if cfg.zeros {
        v.push((
            (cfg.w_upd_qty / 3).max(1),
            (1u64..=9, any::<bool>()).prop_map(|(qty, rev)| Op::Revive { qty, rev }).boxed(),
        ));
    }
    let v: Vec<_> = v.into_iter().filter(|(w, _)| *w > 0).collect();
    proptest::strategy::Union::new_weighted(v).boxed()
}

/// One history in seven (where the check uses read-only calls at all) renders the level through one
/// fixed read-only call after every operation.
fn read_every_strategy(on: bool) -> BoxedStrategy<Option<ReadKind>> {
    if !on {
        return Just(None).boxed();
    }
    prop_oneof![
        12 => Just(None),
        2 => proptest::sample::select(vec![ReadKind::Snapshot, ReadKind::Package, ReadKind::SnapshotJson, ReadKind::Display, ReadKind::SerdeJson, ReadKind::Data]).prop_map(Some),
    ]
    .boxed()
}

pub fn history(cfg: HistCfg) -> BoxedStrategy<History> {
    if !cfg.zeros && cfg.zeros_share > 0 {
        let mut with = cfg;
        with.zeros = true;
        with.zeros_share = 0;
        let mut without = cfg;
        without.zeros_share = 0;
        return prop_oneof![
            (10 - cfg.zeros_share.min(9)) => history(without),
            cfg.zeros_share.min(9) => history(with),
        ]
        .boxed();
    }
    let profile = if cfg.boundary_share == 0 {
        Just(Profile::Small).boxed()
    } else {
        prop_oneof![
            (10 - cfg.boundary_share) => Just(Profile::Small),
            cfg.boundary_share => Just(Profile::Boundary),
        ]
        .boxed()
    };
    let ts_mode = prop_oneof![
        cfg.increasing_ts_share.max(1) => Just(TsMode::Increasing),
        (10 - cfg.increasing_ts_share).max(1) => Just(TsMode::AsGiven),
    ];
    (profile, ts_mode).prop_flat_map(move |(profile, ts_mode)| {
        let price = match profile {
            Profile::Small => (0u64..=10_000).boxed(),
            Profile::Boundary => (0u64..=1).boxed(),
        };
        (
            price,
            gen::id_pool(6, 12),
            proptest::collection::vec(op_strategy(cfg, profile), 0..=cfg.max_len),
            (any::<bool>(), read_every_strategy(cfg.w_read > 0)),
            prop_oneof![
                7 => Just(0u64),
                1 => gen::boundary_u64(),
                1 => (u64::MAX - 40)..=u64::MAX,
                1 => prop_oneof![Just(9_999_999_999_999_999_990u64), Just(10_000_000_000_000_000_000u64), Just(99_990u64), Just(999_999_999_990u64)],
            ]
            .prop_flat_map(|g| (any::<bool>(), prop_oneof![40 => Just(0u32), 3 => Just(1_000u32), 2 => Just(6_000u32), 1 => 65_000u32..=70_000, 1 => 130_000u32..=140_000]).prop_map(move |(w, r)| (g, w, r))),
        )
            .prop_map(move |(price, pool, mut ops, (hold, read_every), (gen_start, wrap, max_rounds))| {
                if cfg.final_drain {
                    ops.push(Op::Match { size: MatchSize::AllPlus1 });
                }
                History { zeros: cfg.zeros, price, profile, ts_mode, pool, ops, ghost: None, hold, gen_start, wrap_ok: cfg.wrap_ok && profile == Profile::Boundary && wrap, max_rounds, read_every }
            })
    })
    .boxed()
}

// ------------------------------------------------------------------------------------
// Oracles

#[derive(Clone, Copy, Debug, PartialEq, Eq, Hash, PartialOrd, Ord)]
pub enum Oracle {
    /// C01: aggregates == sums over the listing, no wrap
    Agg,
    /// C02: per-match accounting, transaction fields, lifetime bound, filled ids
    Account,
    /// C05 seen through the level / model divergence after a match
    Rule,
    /// C06: termination and exhaustion of displayed liquidity
    Term,
    /// C07: update results and effects, read purity
    Update,
    /// C10: rebuild round trips, listing shape
    Rebuild,
    /// C04: time priority (unexplained by a known finding)
    Priority,
    /// C15: statistics
    Stats,
    /// a panic inside an API call on an in-domain input
    Panic,
}

#[derive(Clone, Debug)]
pub struct Violation {
    pub oracle: Oracle,
    pub step: usize,
    pub msg: String,
}

/// What happened, in a form two runs can be compared on (transaction ids and wall-clock
/// timestamps are not part of it).
#[derive(Clone, Debug, PartialEq)]
pub enum OpResult {
    Added(OrderId),
    Skipped,
    Matched {
        requested: u64,
        fills: Vec<(OrderId, u64)>,
        remaining: u64,
        complete: bool,
        filled: Vec<OrderId>,
    },
    Updated(Result<Option<Order>, String>),
    Read,
    /// what a read-only call returned (blind replays only)
    ReadValue(String),
    Rebuilt(bool),
    Ghost,
    Bulk,
    Aborted,
}

#[derive(Clone, Debug, Default)]
pub struct Facts {
    /// operations performed on a sibling level (same price, same ids) next to the one under test
    pub sibling_ops: u64,
    /// orders showing nothing that were amended to a positive display by a Revive operation
    pub revived: u64,
    /// matches whose makers the tracked ticket queue predicted exactly / did not predict
    pub tq_predicted: u64,
    pub tq_mismatch: u64,
    pub adds: u64,
    pub matches: u64,
    pub txs: u64,
    pub partial_fills: u64,
    pub replenishments: u64,
    pub op_on_touched_order: bool, // op on an order after it was partially filled / replenished
    pub update_on_touched_order: bool,
    pub sweep_multi: bool,          // one match traded >= 2 orders
    pub multi_round_same_order: bool, // one match traded the same order >= 2 times
    pub second_match_on_partial: bool,
    pub zero_display_at_match: bool, // match issued with a display-0 / hidden>0 order resting
    pub three_round_match: bool,
    pub removals: u64,
    pub readds: u64,
    pub amends: u64,
    pub match_with_3_resting: bool,
    pub match_after_event: bool, // a match following a replenishment, amend or re-add
    pub rebuilds: u64,
    pub rebuild_with_touched: bool,
    pub reads: u64,
    /// read-only calls made after an operation because the history asks for one after every operation
    pub reads_after_every_op: u64,
    /// read-only calls whose returned content was decoded again and compared with the level
    pub read_contents_checked: u64,
    pub set_aside_orders: u64,
    pub kinds_seen: [bool; 7],
    pub boundary: bool,
    pub strict_pairs: u64,
    pub kf_c04_1: u64,
    pub kf_c04_2: u64,
    pub remapped_adds: u64,
    pub skipped_adds: u64,
    pub clamped_matches: u64,
    pub silent_leaves: u64,
    pub silent_replenish: u64,
    pub tranche_ambiguous: u64,
    pub priority_checks_skipped_deep_level: u64,
}

#[derive(Clone, Debug)]
pub struct Entry {
    pub id: OrderId,
    pub cur: Order,
    pub supplied: i128,
    pub executed: u128,
    pub rank: u64,
    /// re-queued by an earlier match without being replenished since it last got a rank
    pub requeued: bool,
    /// partially filled or replenished at some point (for non-triviality rules)
    pub touched: bool,
    pub partially_filled: bool,
    /// iceberg replenished since the model last saw it in the listing
    pub tranche_unsynced: bool,
}

/// A fully resolved API call (ids and sizes concrete), so that the same call can be applied
/// to another level.
#[derive(Clone, Debug)]
pub enum Concrete {
    Add(Order),
    Match(u64, OrderId),
    Update(OrderUpdate),
    Read(ReadKind),
}

fn sorted_by_id(mut v: Vec<Order>) -> Vec<String> {
    v.sort_by_key(|o| o.id().to_string());
    v.iter().map(|o| format!("{:?}", o)).collect()
}

/// Perform a read-only call and render what it returned (wall-clock fields left out), so that
/// two runs can be compared on what their reads saw.
pub fn perform_read(level: &PriceLevel, k: ReadKind) -> Result<String, String> {
    catch(|| -> Result<String, String> {
        Ok(match k {
            ReadKind::Aggregates => format!(
                "{:?}",
                (level.price(), level.visible_quantity(), level.hidden_quantity(), level.order_count(), level.total_quantity())
            ),
            ReadKind::IterOrders => format!("{:?}", sorted_by_id(level.iter_orders().iter().map(|a| **a).collect())),
            ReadKind::Snapshot => {
                let s = level.snapshot();
                let _ = (s.total_quantity(), s.iter_orders().count(), s.to_string());
                format!(
                    "{:?}",
                    (s.price, s.visible_quantity, s.hidden_quantity, s.order_count, sorted_by_id(s.orders.iter().map(|a| **a).collect()))
                )
            }
            ReadKind::Package => {
                let p = level.snapshot_package().map_err(|e| e.to_string())?;
                p.validate().map_err(|e| format!("own package does not validate: {e}"))?;
                let s = &p.snapshot;
                format!(
                    "{:?}",
                    (p.version, s.price, s.visible_quantity, s.hidden_quantity, s.order_count, sorted_by_id(s.orders.iter().map(|a| **a).collect()))
                )
            }
            ReadKind::SnapshotJson => {
                let j = level.snapshot_to_json().map_err(|e| e.to_string())?;
                let v: serde_json::Value = serde_json::from_str(&j).map_err(|e| e.to_string())?;
                let mut orders: Vec<String> = v["snapshot"]["orders"].as_array().map(|a| a.iter().map(|o| o.to_string()).collect()).unwrap_or_default();
                orders.sort();
                format!("{} {} {} {} {:?}", v["version"], v["snapshot"]["price"], v["snapshot"]["visible_quantity"], v["snapshot"]["hidden_quantity"], orders)
            }
            ReadKind::Display => level.to_string(),
            ReadKind::SerdeJson => serde_json::to_string(level).map_err(|e| e.to_string())?,
            ReadKind::Stats => {
                let s = level.stats();
                let _ = (s.average_execution_price(), s.average_waiting_time(), s.time_since_last_execution(), s.to_string(), serde_json::to_string(&*s));
                format!(
                    "{:?}",
                    (s.orders_added(), s.orders_removed(), s.orders_executed(), s.quantity_executed(), s.value_executed())
                )
            }
            ReadKind::DebugFmt => {
                let _ = format!("{:?}", level);
                let _ = format!("{:?}", level.snapshot());
                let _ = format!("{:?}", level.stats());
                "rendered".to_string()
            }
            ReadKind::FailedWrite => {
                let full = serde_json::to_string(level).map(|t| t.len()).unwrap_or(0);
                for limit in [full / 2, full.saturating_sub(2), 1] {
                    let _ = serde_json::to_writer(crate::checks::codec::FailingWriter { limit }, level);
                    let _ = serde_json::to_writer(crate::checks::codec::FailingWriter { limit }, &level.snapshot());
                    if let Ok(p) = level.snapshot_package() {
                        let _ = serde_json::to_writer(crate::checks::codec::FailingWriter { limit }, &p);
                    }
                }
                "write failed".to_string()
            }
            ReadKind::Data => {
                let d = PriceLevelData::from(level);
                format!("{:?}", (d.price, d.visible_quantity, d.hidden_quantity, d.order_count, sorted_by_id(d.orders)))
            }
        })
    })
    .unwrap_or_else(|m| Err(format!("panicked: {m}")))
}

/// Apply a concrete call to a level without any model; returns the comparable outcome.
pub fn apply_concrete(level: &PriceLevel, gen: &UuidGenerator, c: &Concrete, budget: u64) -> OpResult {
    match c {
        Concrete::Add(o) => {
            let o = *o;
            match catch(|| level.add_order(o)) {
                Ok(_) => OpResult::Added(o.id()),
                Err(_) => OpResult::Aborted,
            }
        }
        Concrete::Match(s, taker) => match with_step_budget(budget, || level.match_order(*s, *taker, gen)) {
            Ok((res, _)) => OpResult::Matched {
                requested: *s,
                fills: res.transactions.as_vec().iter().map(|t| (t.maker_order_id, t.quantity)).collect(),
                remaining: res.remaining_quantity,
                complete: res.is_complete,
                filled: res.filled_order_ids.clone(),
            },
            Err(_) => OpResult::Aborted,
        },
        Concrete::Update(u) => match catch(|| level.update_order(*u)) {
            Ok(r) => OpResult::Updated(r.map(|o| o.map(|a| *a)).map_err(|e| e.to_string())),
            Err(_) => OpResult::Aborted,
        },
        Concrete::Read(k) => OpResult::ReadValue(perform_read(level, *k).unwrap_or_else(|e| format!("read failed: {e}"))),
    }
}

pub struct Interp {
    /// what each concrete call returned (parallel to `concrete`)
    pub concrete_results: Vec<OpResult>,
    /// position of each resting id in `model`
    pub index: HashMap<IdKey, usize>,
    pub ghost_counter: u64,
    pub no_ts_bump: bool,
    pub max_rounds: u64,
    pub wrap_ok: bool,
    /// handles kept alive on behalf of the caller (History::hold)
    pub hold: bool,
    pub held: Vec<Arc<Order>>,
    pub bulk_counter: u64,
    /// concrete calls issued so far (for differential runs on other levels)
    pub concrete: Vec<Concrete>,
    /// known findings that are listed in /verif/known_findings.json (excused, counted)
    pub excuse_kf_c04_1: bool,
    pub excuse_kf_c04_2: bool,
    pub zeros: bool,
    pub price: u64,
    pub profile: Profile,
    pub ts_mode: TsMode,
    pub pool: Vec<OrderId>,
    pub level: PriceLevel,
    pub gen: UuidGenerator,
    pub model: Vec<Entry>,
    pub supplied_total: u128,
    pub seen_txids: HashSet<uuid::Uuid>,
    pub exp_added: u64,
    pub exp_removed: u64,
    pub exp_qty: u128,
    pub exp_value: u128,
    pub stats_known: bool,
    pub clock: u64,
    pub pushes: u64,
    /// ids that were removed by id or amended on this level (a stale/duplicate ticket may exist)
    pub stale_possible: HashSet<OrderId>,
    pub ever_added: HashSet<OrderId>,
    pub add_counter: u64,
    pub violations: Vec<Violation>,
    pub facts: Facts,
    pub step: usize,
    pub dead: bool,
    pub skip_reads: bool,
    pub read_every: Option<ReadKind>,
    pub event_since_match: bool,
    pub taker_counter: u64,
    pub trace: Vec<String>,
    pub keep_trace: bool,
    /// The ticket queue the level is documented to keep (order_queue.rs: ids are queued on every
    /// push - add, same-price amendment, survivor of a match - and a removal by id leaves its
    /// ticket behind), tracked exactly. It delimits the known findings KF-C04-1/-2 and KF-C11-1:
    /// a deviation from arrival order is attributed to them only if the makers of the match are
    /// exactly those this queue yields. None = not tracked any more (a prediction failed, the
    /// model diverged, or a rebuild with tied timestamps).
    pub sibling: Option<(PriceLevel, UuidGenerator, HashSet<IdKey>)>,
    /// statistics handle taken when the level was created (or rebuilt)
    pub stats_handle: Option<Arc<pricelevel::PriceLevelStatistics>>,
    pub tq: Option<VecDeque<OrderId>>,
    /// verdict for the match being audited: Some(true) the ticket queue yields exactly the
    /// observed makers and quantities, Some(false) it does not, None not tracked
    tq_verdict: Option<bool>,
}

#[derive(Clone, Debug, PartialEq)]
struct Fingerprint {
    price: u64,
    vis: u64,
    hid: u64,
    count: usize,
    listing: Vec<Order>,
    stats: (usize, usize, usize, u64, u64),
}

fn listing_of(level: &PriceLevel) -> Vec<Order> {
    level.iter_orders().iter().map(|a| **a).collect()
}

impl Interp {
    pub fn new(h: &History) -> Self {
        Interp {
            concrete_results: Vec::new(),
            index: HashMap::new(),
            ghost_counter: 0,
            no_ts_bump: false,
            max_rounds: if h.max_rounds == 0 { 120 } else { h.max_rounds as u64 },
            wrap_ok: h.wrap_ok,
            hold: h.hold,
            held: Vec::new(),
            bulk_counter: 0,
            concrete: Vec::new(),
            excuse_kf_c04_1: true,
            excuse_kf_c04_2: true,
            zeros: h.zeros,
            price: h.price,
            profile: h.profile,
            ts_mode: h.ts_mode,
            pool: h.pool.iter().map(|s| s.build()).collect(),
            level: PriceLevel::new(h.price),
            gen: if h.gen_start == 0 {
                UuidGenerator::new(uuid::Uuid::from_u128(0x5eed))
            } else {
                serde_json::from_value(serde_json::json!({"namespace": uuid::Uuid::from_u128(0x5eed), "counter": h.gen_start}))
                    .unwrap_or_else(|_| UuidGenerator::new(uuid::Uuid::from_u128(0x5eed)))
            },
            model: Vec::new(),
            supplied_total: 0,
            seen_txids: HashSet::new(),
            exp_added: 0,
            exp_removed: 0,
            exp_qty: 0,
            exp_value: 0,
            stats_known: true,
            clock: 0,
            pushes: 0,
            stale_possible: HashSet::new(),
            ever_added: HashSet::new(),
            add_counter: 0,
            violations: Vec::new(),
            facts: Facts {
                boundary: h.profile == Profile::Boundary,
                ..Facts::default()
            },
            step: 0,
            dead: false,
            skip_reads: false,
            read_every: h.read_every,
            event_since_match: false,
            taker_counter: 0,
            trace: Vec::new(),
            keep_trace: false,
            sibling: None,
            stats_handle: None,
            tq: Some(VecDeque::new()),
            tq_verdict: None,
        }
    }

    fn violate(&mut self, oracle: Oracle, msg: String) {
        self.violations.push(Violation {
            oracle,
            step: self.step,
            msg,
        });
    }

    fn note(&mut self, s: impl FnOnce() -> String) {
        if self.keep_trace {
            let t = s();
            self.trace.push(format!("#{} {}", self.step, t));
        }
    }

    fn find(&self, id: OrderId) -> Option<usize> {
        self.index.get(&id_key(id)).copied()
    }

    fn model_push(&mut self, e: Entry) {
        self.index.insert(id_key(e.id), self.model.len());
        self.model.push(e);
    }

    /// O(1) removal (the last entry takes the freed slot)
    fn model_remove(&mut self, i: usize) -> Entry {
        let e = self.model.swap_remove(i);
        self.index.remove(&id_key(e.id));
        if i < self.model.len() {
            let k = id_key(self.model[i].id);
            self.index.insert(k, i);
        }
        e
    }

    fn resolve(&self, t: Target) -> OrderId {
        match t {
            Target::Resting(i) if !self.model.is_empty() => {
                self.model[pick(i, self.model.len())].id
            }
            Target::Resting(i) | Target::Pool(i) => self.pool[pick(i, self.pool.len())],
        }
    }

    fn fingerprint(&self) -> Fingerprint {
        let s = self.level.stats();
        Fingerprint {
            price: self.level.price(),
            vis: self.level.visible_quantity(),
            hid: self.level.hidden_quantity(),
            count: self.level.order_count(),
            listing: listing_of(&self.level),
            stats: (
                s.orders_added(),
                s.orders_removed(),
                s.orders_executed(),
                s.quantity_executed(),
                s.value_executed(),
            ),
        }
    }

    // -------------------------------------------------------------------------------
    // invariants evaluated after every operation

    fn check_invariants(&mut self, after_match: bool) {
        let listing = match catch(|| self.level.iter_orders()) {
            Ok(l) => {
                let v: Vec<Order> = l.iter().map(|a| **a).collect();
                if self.hold {
                    // the caller keeps the listing it was handed
                    if self.held.len() < 4096 {
                        self.held.extend(l);
                    }
                }
                v
            }
            Err(m) => {
                self.violate(Oracle::Panic, format!("iter_orders panicked: {m}"));
                self.dead = true;
                return;
            }
        };
        // C01: aggregates equal the sums over the listing
        let sum_vis: u128 = listing.iter().map(|o| o.visible_quantity() as u128).sum();
        let sum_hid: u128 = listing.iter().map(|o| o.hidden_quantity() as u128).sum();
        let vis = self.level.visible_quantity();
        let hid = self.level.hidden_quantity();
        let cnt = self.level.order_count();
        if vis as u128 != sum_vis || hid as u128 != sum_hid || cnt != listing.len() {
            self.violate(
                Oracle::Agg,
                format!(
                    "aggregates visible={} hidden={} count={} but the {} listed orders sum to visible={} hidden={}",
                    vis, hid, cnt, listing.len(), sum_vis, sum_hid
                ),
            );
        }
        if vis as u128 > self.supplied_total || hid as u128 > self.supplied_total {
            self.violate(
                Oracle::Agg,
                format!(
                    "aggregate above everything ever supplied ({}): visible={} hidden={}",
                    self.supplied_total, vis, hid
                ),
            );
        }
        match catch(|| self.level.total_quantity()) {
            Ok(t) => {
                if t as u128 != vis as u128 + hid as u128 {
                    self.violate(Oracle::Agg, format!("total_quantity {} != {} + {}", t, vis, hid));
                }
            }
            Err(m) => self.violate(Oracle::Agg, format!("total_quantity panicked: {m}")),
        }
        // C10 listing shape: each id once, non-decreasing timestamps
        let mut seen = HashSet::new();
        for o in &listing {
            if !seen.insert(id_key(o.id())) {
                self.violate(Oracle::Rebuild, format!("listing shows id {} twice", o.id()));
            }
        }
        if listing.windows(2).any(|w| w[0].timestamp() > w[1].timestamp()) {
            self.violate(Oracle::Rebuild, "listing not in non-decreasing timestamp order".into());
        }
        // model vs listing
        self.reconcile(&listing, after_match);
        // C15
        if self.stats_known {
            // read through a handle obtained earlier (right after the level was created / rebuilt)
            // on odd steps, through a fresh one on even steps: both are the same statistics
            let s = match (&self.stats_handle, self.step % 2) {
                (Some(h), 1) => h.clone(),
                _ => self.level.stats(),
            };
            let got = (
                s.orders_added() as u128,
                s.orders_removed() as u128,
                s.quantity_executed() as u128,
                s.value_executed() as u128,
            );
            let want = (
                self.exp_added as u128,
                self.exp_removed as u128,
                self.exp_qty,
                self.exp_value,
            );
            if got != want {
                self.violate(
                    Oracle::Stats,
                    format!(
                        "statistics (added, removed, quantity, value) = {:?} but the events say {:?}",
                        got, want
                    ),
                );
                // avoid repeating the same complaint after every later step
                self.exp_added = got.0 as u64;
                self.exp_removed = got.1 as u64;
                self.exp_qty = got.2;
                self.exp_value = got.3;
            }
        }
    }

    /// Compare the listing with the model; display-0 orders may have been visited silently
    /// by the last match. Disagreements are model divergences (Rule after a match, Update
    /// otherwise); the model is then re-synchronised from the listing so the history goes on.
    fn reconcile(&mut self, listing: &[Order], after_match: bool) {
        let by_id: HashMap<IdKey, Order> = listing.iter().map(|o| (id_key(o.id()), *o)).collect();
        let oracle = if after_match { Oracle::Rule } else { Oracle::Update };
        let mut i = 0;
        let mut problems: Vec<String> = Vec::new();
        while i < self.model.len() {
            let e = &self.model[i];
            let listed = by_id.get(&id_key(e.id)).copied();
            if listed == Some(e.cur) {
                self.model[i].tranche_unsynced = false;
                i += 1;
                continue;
            }
            if after_match && e.cur.visible_quantity() == 0 {
                let sv = silent_visit(&e.cur);
                if listed == sv {
                    match sv {
                        None => {
                            self.facts.silent_leaves += 1;
                            self.model_remove(i);
                            continue;
                        }
                        Some(n) => {
                            self.facts.silent_replenish += 1;
                            self.clock += 1;
                            let rank = self.clock;
                            let e = &mut self.model[i];
                            e.cur = n;
                            e.rank = rank;
                            e.requeued = false;
                            e.touched = true;
                            i += 1;
                            continue;
                        }
                    }
                }
            }
            // other admissible iceberg tranche? (statement: "no larger than the exhausted one")
            if after_match && e.tranche_unsynced {
                if let Some(l) = listed {
                    let tot_model = e.cur.visible_quantity() as u128 + e.cur.hidden_quantity() as u128;
                    let tot_list = l.visible_quantity() as u128 + l.hidden_quantity() as u128;
                    if Kind::of(&l) == Kind::Iceberg
                        && tot_model == tot_list
                        && l.visible_quantity() >= 1
                        && with_quantities(&e.cur, l.visible_quantity(), l.hidden_quantity()) == l
                    {
                        self.facts.tranche_ambiguous += 1;
                        let e = &mut self.model[i];
                        e.cur = l;
                        e.tranche_unsynced = false;
                        i += 1;
                        continue;
                    }
                }
            }
            problems.push(format!(
                "order {} should rest as {} but the level lists {}",
                e.id,
                brief(&e.cur),
                listed.as_ref().map(brief).unwrap_or_else(|| "nothing".into())
            ));
            match listed {
                Some(l) => {
                    self.model[i].cur = l;
                    i += 1;
                }
                None => {
                    self.model_remove(i);
                }
            }
        }
        let known: HashSet<IdKey> = self.model.iter().map(|e| id_key(e.id)).collect();
        for o in listing {
            if !known.contains(&id_key(o.id())) {
                problems.push(format!("the level lists {} which should not rest", brief(o)));
                self.clock += 1;
                self.model_push(Entry {
                    id: o.id(),
                    cur: *o,
                    supplied: o.visible_quantity() as i128 + o.hidden_quantity() as i128,
                    executed: 0,
                    rank: self.clock,
                    requeued: false,
                    touched: false,
                    partially_filled: false,
                    tranche_unsynced: false,
                });
            }
        }
        if !problems.is_empty() {
            self.tq = None;
        }
        for p in problems {
            self.violate(oracle, p);
        }
    }

    // -------------------------------------------------------------------------------

    pub fn apply(&mut self, op: &Op) -> OpResult {
        let r = self.apply_one(op);
        if let Some(k) = self.read_every {
            if !self.dead && !self.skip_reads && !matches!(op, Op::GhostAdd { .. }) && *op != Op::Read(k) {
                self.facts.reads_after_every_op += 1;
                self.do_read(k);
            }
        }
        r
    }

    fn apply_one(&mut self, op: &Op) -> OpResult {
        if self.dead {
            return OpResult::Aborted;
        }
        self.step += 1;
        let r = match op {
            Op::Add { slot, spec } => self.do_add(*slot, spec),
            Op::Match { size } => self.do_match(*size, None),
            Op::MatchAs { size, taker } => {
                let id = self.pool[pick(*taker, self.pool.len())];
                self.do_match(*size, Some(id))
            }
            Op::Cancel { target } => {
                let id = self.resolve(*target);
                self.do_remove(OrderUpdate::Cancel { order_id: id }, id)
            }
            Op::UpdatePrice { target, same } => {
                let id = self.resolve(*target);
                if *same {
                    self.do_same_price_move(id)
                } else {
                    let np = self.other_price_for(id, *target);
                    self.do_remove(OrderUpdate::UpdatePrice { order_id: id, new_price: np }, id)
                }
            }
            Op::UpdateQty { target, qty } => {
                let id = self.resolve(*target);
                let q = self.clamp_amend(id, *qty);
                self.do_amend(OrderUpdate::UpdateQuantity { order_id: id, new_quantity: q }, id, q)
            }
            Op::UpdatePQ { target, same, qty } => {
                let id = self.resolve(*target);
                if *same {
                    let q = self.clamp_amend(id, *qty);
                    self.do_amend(
                        OrderUpdate::UpdatePriceAndQuantity { order_id: id, new_price: self.price, new_quantity: q },
                        id,
                        q,
                    )
                } else {
                    let np = self.other_price_for(id, *target);
                    self.do_remove(
                        OrderUpdate::UpdatePriceAndQuantity { order_id: id, new_price: np, new_quantity: *qty },
                        id,
                    )
                }
            }
            Op::Replace { target, same, qty, buy } => {
                let id = self.resolve(*target);
                let side = if *buy { Side::Buy } else { Side::Sell };
                if *same {
                    let q = self.clamp_amend(id, *qty);
                    self.do_amend(
                        OrderUpdate::Replace { order_id: id, price: self.price, quantity: q, side },
                        id,
                        q,
                    )
                } else {
                    let np = self.other_price_for(id, *target);
                    self.do_remove(OrderUpdate::Replace { order_id: id, price: np, quantity: *qty, side }, id)
                }
            }
            Op::Read(k) => {
                if self.skip_reads {
                    return OpResult::Read;
                }
                self.do_read(*k)
            }
            Op::Rebuild(p) => self.do_rebuild(*p),
            Op::Transfer { from, to, d } => {
                let a = self.resolve(*from);
                let b = self.resolve(*to);
                match (self.find(a), self.find(b)) {
                    (Some(i), Some(j)) if a != b => {
                        let x = self.model[i].cur.visible_quantity();
                        let y = self.model[j].cur.visible_quantity();
                        // (histories without zero quantities keep at least one unit displayed)
                        let d = (*d).min(if self.zeros { x } else { x.saturating_sub(1) });
                        if d > 0 && y.checked_add(d).is_some() {
                            let _ = self.do_amend(OrderUpdate::UpdateQuantity { order_id: a, new_quantity: x - d }, a, x - d);
                            if !self.dead {
                                // (a no-op amendment of the first order leaves less headroom)
                                let q = self.clamp_amend(b, y + d);
                                let _ = self.do_amend(OrderUpdate::UpdateQuantity { order_id: b, new_quantity: q }, b, q);
                            }
                        }
                    }
                    _ => {}
                }
                OpResult::Bulk
            }
            Op::Churn { n, spec, ghost } => {
                let mut sp = *spec;
                sp.display = sp.display.max(1).min(5);
                sp.hidden = sp.hidden.min(5);
                if self.ts_mode == TsMode::Increasing {
                    // (churned orders never rest: they do not take part in the increasing-timestamp
                    // numbering, so inserting a churn does not shift the timestamps of later adds)
                    sp.ts = 998;
                }
                let per_pair = sp.display as u128 + if sp.kind.has_hidden() { sp.hidden as u128 } else { 0 };
                for _ in 0..*n {
                    if self.dead {
                        break;
                    }
                    if !self.wrap_ok && self.headroom() < per_pair as u64 {
                        break;
                    }
                    let id = if *ghost {
                        self.ghost_counter += 1;
                        OrderId::from_u64(0x6805_7100_0000_0000 + self.ghost_counter)
                    } else {
                        self.bulk_counter += 1;
                        bulk_id(self.bulk_counter)
                    };
                    // direct calls (the per-operation fingerprinting of do_remove would make large
                    // churns quadratic); the cancel must hand back exactly the order just added
                    let order = sp.build(id, self.price);
                    self.concrete.push(Concrete::Add(order));
                    self.concrete.push(Concrete::Update(OrderUpdate::Cancel { order_id: id }));
                    let level = &self.level;
                    let r = catch(|| {
                        let h = level.add_order(order);
                        (h, level.update_order(OrderUpdate::Cancel { order_id: id }))
                    });
                    self.concrete_results.push(OpResult::Added(id));
                    self.concrete_results.push(match &r {
                        Ok((_, u)) => OpResult::Updated(u.as_ref().map(|o| o.as_ref().map(|a| **a)).map_err(|e| e.to_string())),
                        Err(_) => OpResult::Aborted,
                    });
                    match r {
                        Ok((h, Ok(Some(back)))) if *back == order => {
                            if self.hold && self.held.len() < 4096 {
                                self.held.push(h);
                                self.held.push(back);
                            }
                        }
                        Ok((_, other)) => {
                            let shown = format!("{:?}", other.as_ref().map(|o| o.as_ref().map(|a| brief(a))).map_err(|e| e.to_string()));
                            self.violate(Oracle::Update, format!("cancel of the order just added ({}) returned {}", brief(&order), shown));
                        }
                        Err(m) => {
                            self.violate(Oracle::Panic, format!("add + cancel panicked: {m}"));
                            self.dead = true;
                        }
                    }
                    self.supplied_total += per_pair;
                    self.tq_push(id);
                    self.exp_added += 1;
                    self.exp_removed += 1;
                    self.pushes += 1;
                    self.facts.adds += 1;
                    self.facts.removals += 1;
                    self.clock += 1;
                }
                OpResult::Bulk
            }
            Op::AmendChurn { target, n } => {
                let id = self.resolve(*target);
                if let Some(i0) = self.find(id) {
                    // alternate between the current displayed quantity and one unit more (as far as
                    // the 64-bit headroom allows); direct calls, checked against the amendment rule
                    let q0 = self.model[i0].cur.visible_quantity();
                    for k in 0..*n {
                        if self.dead {
                            break;
                        }
                        let i = match self.find(id) {
                            Some(i) => i,
                            None => break,
                        };
                        let q = if k % 2 == 0 { self.clamp_amend(id, q0.saturating_add(1)) } else { self.clamp_amend(id, q0) };
                        let u = OrderUpdate::UpdateQuantity { order_id: id, new_quantity: q };
                        let r = match self.call_update(u) {
                            Some(r) => r,
                            None => break,
                        };
                        let cur = self.model[i].cur;
                        match &r {
                            Ok(Some(o)) if amend_ok(&cur, q, o) => {
                                let delta = o.visible_quantity() as i128 - cur.visible_quantity() as i128;
                                if delta > 0 {
                                    self.supplied_total += delta as u128;
                                }
                                let m = &mut self.model[i];
                                m.supplied += delta;
                                m.cur = **o;
                                self.tq_push(id);
                            }
                            other => {
                                let shown = format!("{:?}", other.as_ref().map(|o| o.as_ref().map(|a| brief(a))));
                                self.violate(Oracle::Update, format!("{} on resting {} returned {}", u, brief(&cur), shown));
                                self.tq = None;
                                break;
                            }
                        }
                        self.facts.amends += 1;
                        self.pushes += 1;
                    }
                    self.stale_possible.insert(id);
                    self.event_since_match = true;
                }
                OpResult::Bulk
            }
            Op::Sibling { what, slot, spec, qty } => {
                if self.skip_reads {
                    return OpResult::Read;
                }
                let id = self.resolve(Target::Resting(*slot));
                let price = self.price;
                let mut sp = *spec;
                sp.display = sp.display.min(5);
                sp.hidden = sp.hidden.min(5);
                if !self.zeros {
                    sp.display = sp.display.max(1);
                }
                sp.own_price = None;
                let order = sp.build(id, price);
                let sib = self.sibling.get_or_insert_with(|| (PriceLevel::new(price), UuidGenerator::new(uuid::Uuid::from_u128(0x51b1)), HashSet::new()));
                let (level, gen, ids) = (&sib.0, &sib.1, &mut sib.2);
                let (what, qty) = (*what, *qty);
                let key = id_key(id);
                let r = catch(|| match what % 6 {
                    0 => {
                        if ids.insert(key) {
                            level.add_order(order);
                        }
                    }
                    1 => {
                        let res = level.match_order(qty, OrderId::from_u64(0x51B0_0000), gen);
                        for f in res.filled_order_ids.iter() {
                            ids.remove(&id_key(*f));
                        }
                    }
                    2 => {
                        if let Ok(Some(_)) = level.update_order(OrderUpdate::Cancel { order_id: id }) {
                            ids.remove(&key);
                        }
                    }
                    3 => {
                        if let Ok(j) = level.snapshot_to_json() {
                            let _ = PriceLevel::from_snapshot_json(&j);
                        }
                    }
                    4 => {
                        let _ = <PriceLevel as std::str::FromStr>::from_str(&level.to_string());
                    }
                    _ => {
                        if let Ok(j) = serde_json::to_string(level) {
                            let _ = serde_json::from_str::<PriceLevel>(&j);
                        }
                    }
                });
                // (orders that left the sibling silently - nothing displayed, nothing hidden - may be
                // added again later: resynchronise the id set from its listing)
                if let Some(sib) = self.sibling.as_mut() {
                    sib.2 = sib.0.iter_orders().iter().map(|o| id_key(o.id())).collect();
                }
                self.facts.sibling_ops += 1;
                if let Err(m) = r {
                    self.violate(Oracle::Panic, format!("an operation on a sibling level panicked: {m}"));
                }
                OpResult::Read
            }
            Op::Revive { qty, rev } => {
                let mut ids: Vec<(u64, OrderId)> = self
                    .model
                    .iter()
                    .filter(|e| e.cur.visible_quantity() == 0)
                    .map(|e| (e.cur.timestamp(), e.id))
                    .collect();
                ids.sort_by_key(|x| (x.0, id_key(x.1)));
                if *rev {
                    ids.reverse();
                }
                ids.truncate(64);
                for (_, id) in ids {
                    if self.dead {
                        break;
                    }
                    let q = self.clamp_amend(id, *qty);
                    if q > 0 {
                        let _ = self.do_amend(OrderUpdate::UpdateQuantity { order_id: id, new_quantity: q }, id, q);
                        self.facts.revived += 1;
                    }
                }
                OpResult::Bulk
            }
            Op::Burst { n, spec } => {
                for _ in 0..*n {
                    if self.dead {
                        break;
                    }
                    self.bulk_counter += 1;
                    let id = bulk_id(self.bulk_counter);
                    let mut sp = *spec;
                    sp.display = sp.display.min(5);
                    sp.hidden = sp.hidden.min(5);
                    let _ = self.add_with_id(id, sp);
                }
                OpResult::Bulk
            }
            Op::GhostAdd { spec } => {
                let mut spec = *spec;
                if self.ts_mode == TsMode::Increasing {
                    spec.ts = 999;
                }
                if self.find(ghost_id()).is_none() && !self.pool.contains(&ghost_id()) {
                    self.add_with_id(ghost_id(), spec);
                }
                OpResult::Ghost
            }
            Op::GhostRemove { via } => {
                let id = ghost_id();
                if self.find(id).is_some() {
                    let np = self.other_price();
                    let u = match via % 4 {
                        0 => OrderUpdate::Cancel { order_id: id },
                        1 => OrderUpdate::UpdatePrice { order_id: id, new_price: np },
                        2 => OrderUpdate::UpdatePriceAndQuantity { order_id: id, new_price: np, new_quantity: 3 },
                        _ => OrderUpdate::Replace { order_id: id, price: np, quantity: 3, side: Side::Buy },
                    };
                    let _ = self.do_remove(u, id);
                }
                OpResult::Ghost
            }
        };
        if !self.dead {
            let after_match = matches!(op, Op::Match { .. } | Op::MatchAs { .. });
            self.check_invariants(after_match);
        }
        r
    }

    fn other_price(&self) -> u64 {
        if self.price == u64::MAX {
            self.price - 1
        } else {
            self.price + 1
        }
    }

    /// the price a move goes to: for an order that carries a price of its own (different from the
    /// level's) that very price half of the time - the level's price decides, not the order's
    fn other_price_for(&self, id: OrderId, t: Target) -> u64 {
        let raw = match t {
            Target::Resting(i) | Target::Pool(i) => i,
        };
        if raw & 1 == 1 {
            if let Some(i) = self.find(id) {
                let own = self.model[i].cur.price();
                if own != self.price {
                    return own;
                }
            }
        }
        self.other_price()
    }

    fn apply_silent_replenish(&mut self, id: OrderId) {
        if let Some(i) = self.find(id) {
            if self.model[i].cur.visible_quantity() == 0 {
                if let Some(nx) = silent_visit(&self.model[i].cur) {
                    if nx != self.model[i].cur {
                        self.clock += 1;
                        let rank = self.clock;
                        let e = &mut self.model[i];
                        e.cur = nx;
                        e.rank = rank;
                        e.requeued = false;
                        e.touched = true;
                        self.facts.silent_replenish += 1;
                    }
                }
            }
        }
    }

    fn tq_push(&mut self, id: OrderId) {
        if let Some(q) = self.tq.as_mut() {
            q.push_back(id);
        }
    }

    /// What `match_order(s)` does to the tracked ticket queue and which makers it yields
    /// (pop the head; drop tickets of ids that are not resting; an order that trades or replenishes
    /// and survives is queued again at the tail; orders that can do neither are set aside and
    /// queued again after the match). Pure: returns (fills, queue afterwards).
    fn tq_predict(&self, s: u64, max_fills: usize) -> Option<(Vec<(OrderId, u64)>, VecDeque<OrderId>, Vec<(usize, OrderId)>, Vec<OrderId>)> {
        let mut q = self.tq.clone()?;
        let mut overlay: HashMap<IdKey, Option<Order>> = HashMap::new();
        let mut fills: Vec<(OrderId, u64)> = Vec::new();
        let mut set_aside: Vec<OrderId> = Vec::new();
        // replenishments of orders that showed nothing (no transaction): (number of fills before, id)
        let mut silent: Vec<(usize, OrderId)> = Vec::new();
        let mut remaining = s;
        while remaining > 0 && fills.len() < max_fills {
            let id = match q.pop_front() {
                Some(id) => id,
                None => break,
            };
            let k = id_key(id);
            let cur = match overlay.get(&k) {
                Some(o) => *o,
                None => self.find(id).map(|i| self.model[i].cur),
            };
            let cur = match cur {
                Some(c) => c,
                None => continue, // stale ticket
            };
            let r = ref_match(&cur, remaining);
            if r.consumed > 0 {
                fills.push((id, r.consumed));
            }
            remaining = r.remaining;
            match r.next {
                None => {
                    overlay.insert(k, None);
                }
                Some(nx) => {
                    overlay.insert(k, Some(nx));
                    if r.consumed == 0 && r.hidden_moved == 0 {
                        // (taken out of the book for the rest of this match)
                        overlay.insert(k, None);
                        set_aside.push(id);
                    } else {
                        if r.consumed == 0 {
                            silent.push((fills.len(), id));
                        }
                        q.push_back(id);
                    }
                }
            }
        }
        for id in &set_aside {
            q.push_back(*id);
        }
        Some((fills, q, silent, set_aside))
    }

    fn headroom(&self) -> u64 {
        (u64::MAX as u128).saturating_sub(self.supplied_total) as u64
    }

    fn do_add(&mut self, slot: u16, spec: &OrderSpec) -> OpResult {
        // ids unique among resting orders: take the next free pool id instead
        let n = self.pool.len();
        let start = pick(slot, n);
        let mut chosen = None;
        for k in 0..n {
            let id = self.pool[(start + k) % n];
            if self.find(id).is_none() {
                if k > 0 {
                    self.facts.remapped_adds += 1;
                }
                chosen = Some(id);
                break;
            }
        }
        let id = match chosen {
            Some(id) => id,
            None => {
                self.facts.skipped_adds += 1;
                return OpResult::Skipped;
            }
        };
        self.add_with_id(id, *spec)
    }

    fn add_with_id(&mut self, id: OrderId, spec: OrderSpec) -> OpResult {
        let mut spec = spec;
        let ghost = id == ghost_id();
        // sums must fit in 64 bits (quantifier): trim against the headroom
        let room = if self.wrap_ok { u64::MAX } else { self.headroom() };
        if spec.display > room {
            spec.display = room;
        }
        if spec.kind.has_hidden() && spec.hidden > room - spec.display {
            spec.hidden = room - spec.display;
        }
        if !self.zeros && spec.display == 0 {
            self.facts.skipped_adds += 1;
            return OpResult::Skipped;
        }
        if self.ts_mode == TsMode::Increasing && self.no_ts_bump {
            spec.ts = 998;
        } else if self.ts_mode == TsMode::Increasing && !ghost {
            self.add_counter += 1;
            spec.ts = 1_000 + self.add_counter;
        }
        let order = spec.build(id, self.price);
        self.note(|| format!("add {}", brief(&order)));
        self.concrete.push(Concrete::Add(order));
        match catch(|| self.level.add_order(order)) {
            Ok(handle) => {
                self.concrete_results.push(OpResult::Added(id));
                if self.hold {
                    self.held.push(handle);
                }
            }
            Err(m) => {
                self.concrete_results.push(OpResult::Aborted);
                self.violate(Oracle::Panic, format!("add_order panicked: {m}"));
                self.dead = true;
                return OpResult::Aborted;
            }
        }
        self.clock += 1;
        let total = order.visible_quantity() as u128 + order.hidden_quantity() as u128;
        self.supplied_total += total;
        self.model_push(Entry {
            id,
            cur: order,
            supplied: total as i128,
            executed: 0,
            rank: self.clock,
            requeued: false,
            touched: false,
            partially_filled: false,
            tranche_unsynced: false,
        });
        self.tq_push(id);
        self.exp_added += 1;
        self.pushes += 1;
        self.facts.adds += 1;
        self.facts.kinds_seen[ALL_KINDS.iter().position(|k| *k == spec.kind).unwrap()] = true;
        if !self.ever_added.insert(id) {
            self.facts.readds += 1;
            self.event_since_match = true;
        }
        OpResult::Added(id)
    }

    fn rounds_for(&self, s: u64) -> u64 {
        self.model
            .iter()
            .map(|e| rounds_estimate(&e.cur, s))
            .fold(0u64, |a, b| a.saturating_add(b))
    }

    fn do_match(&mut self, size: MatchSize, taker_override: Option<OrderId>) -> OpResult {
        let listing_disp: Vec<u64> = {
            let mut v: Vec<&Entry> = self.model.iter().collect();
            v.sort_by_key(|e| e.cur.timestamp());
            v.iter().map(|e| e.cur.visible_quantity()).collect()
        };
        let sum_display: u128 = self.model.iter().map(|e| e.cur.visible_quantity() as u128).sum();
        let sum_all: u128 = self
            .model
            .iter()
            .map(|e| e.cur.visible_quantity() as u128 + e.cur.hidden_quantity() as u128)
            .sum();
        let mut s: u64 = match size {
            MatchSize::Exact(x) => x,
            MatchSize::FirstK(k) => listing_disp
                .iter()
                .take(k as usize)
                .fold(0u64, |a, b| a.saturating_add(*b)),
            MatchSize::AllPlus1 => (sum_all + 1).min(u64::MAX as u128) as u64,
            MatchSize::Zero => 0,
            MatchSize::Huge => u64::MAX,
            MatchSize::AfterFills(k) => match self.tq_predict(u64::MAX, k as usize) {
                Some((fills, ..)) => fills.iter().fold(0u64, |a, f| a.saturating_add(f.1)),
                None => listing_disp.iter().take(k as usize).fold(0u64, |a, b| a.saturating_add(*b)),
            },
        };
        // keep the number of replenishment rounds a correct sweep needs bounded (DESIGN §C06)
        let max_rounds: u64 = self.max_rounds;
        let n = self.model.len() as u64;
        if self.rounds_for(s) > max_rounds + 2 * n {
            let (mut lo, mut hi) = (0u64, s);
            while lo < hi {
                let mid = lo + (hi - lo) / 2 + ((hi - lo) & 1);
                if self.rounds_for(mid) <= max_rounds + 2 * n {
                    lo = mid;
                } else {
                    hi = mid - 1;
                }
            }
            s = lo;
            self.facts.clamped_matches += 1;
        }
        let rounds = self.rounds_for(s);
        if self
            .model
            .iter()
            .any(|e| e.cur.visible_quantity() == 0 && e.cur.hidden_quantity() > 0)
        {
            self.facts.zero_display_at_match = true;
        }
        if self.model.len() >= 3 {
            self.facts.match_with_3_resting = true;
        }
        if self.event_since_match {
            self.facts.match_after_event = true;
        }
        self.event_since_match = false;
        self.facts.matches += 1;
        self.taker_counter += 1;
        let taker = taker_override.unwrap_or_else(|| OrderId::from_u64(0xFFFF_0000_0000_0000 | self.taker_counter));
        let budget = 4000 + 40 * self.pushes + 400 * (n + rounds);
        self.note(|| format!("match {} (from {:?})", s, size));
        let tq_prediction = self.tq_predict(s, usize::MAX);
        self.tq_verdict = None;
        self.concrete.push(Concrete::Match(s, taker));
        let res: MatchResult =
            match with_step_budget(budget, || self.level.match_order(s, taker, &self.gen)) {
                Ok((r, _steps)) => r,
                Err(StepAbort::Budget(b)) => {
                    self.violate(
                        Oracle::Term,
                        format!("match_order({}) did not return within {} shared-memory steps ({} resting orders, about {} visits needed)", s, b, n, rounds),
                    );
                    self.dead = true;
                    self.concrete_results.push(OpResult::Aborted);
                    return OpResult::Aborted;
                }
                Err(StepAbort::Panic(m)) => {
                    self.violate(Oracle::Panic, format!("match_order({}) panicked: {m}", s));
                    self.dead = true;
                    self.concrete_results.push(OpResult::Aborted);
                    return OpResult::Aborted;
                }
            };
        self.concrete_results.push(OpResult::Matched {
            requested: s,
            fills: res.transactions.as_vec().iter().map(|t| (t.maker_order_id, t.quantity)).collect(),
            remaining: res.remaining_quantity,
            complete: res.is_complete,
            filled: res.filled_order_ids.clone(),
        });
        // ---- C02 accounting
        let txs = res.transactions.as_vec().clone();
        let mut silent_events: Vec<(usize, OrderId)> = Vec::new();
        let mut set_aside_exact: Vec<OrderId> = Vec::new();
        if let Some((fills, after, silent, aside)) = tq_prediction {
            let seen: Vec<(OrderId, u64)> = txs.iter().map(|t| (t.maker_order_id, t.quantity)).collect();
            if fills == seen {
                self.facts.tq_predicted += 1;
                self.tq_verdict = Some(true);
                self.tq = Some(after);
                silent_events = silent;
                set_aside_exact = aside;
            } else {
                self.facts.tq_mismatch += 1;
                self.tq_verdict = Some(false);
                self.tq = None;
            }
        }
        let executed: u128 = txs.iter().map(|t| t.quantity as u128).sum();
        match catch(|| res.executed_quantity()) {
            Ok(e) if e as u128 == executed => {}
            Ok(e) => self.violate(Oracle::Account, format!("executed_quantity() = {} but the transactions sum to {}", e, executed)),
            Err(m) => self.violate(Oracle::Account, format!("executed_quantity panicked: {m}")),
        }
        if executed + res.remaining_quantity as u128 != s as u128 {
            self.violate(
                Oracle::Account,
                format!("executed {} + remaining {} != requested {}", executed, res.remaining_quantity, s),
            );
        }
        if res.is_complete != (res.remaining_quantity == 0) {
            self.violate(
                Oracle::Account,
                format!("is_complete={} with remaining {}", res.is_complete, res.remaining_quantity),
            );
        }
        if res.order_id != taker {
            self.violate(Oracle::Account, "match result carries another taker id".into());
        }
        // ---- walk the transactions through the model
        let mut remaining = s;
        let mut traded: Vec<OrderId> = Vec::new();
        let mut traded_set: HashSet<IdKey> = HashSet::new();
        let mut per_maker: HashMap<OrderId, u32> = HashMap::new();
        let mut replenish_in_call = 0u32;
        let mut pairs_done = 0usize;
        let mut silent_at = 0usize;
        for (tx_index, t) in txs.iter().enumerate() {
            // orders that showed nothing and were replenished by this match's visit before this
            // transaction (known exactly when the ticket queue predicted the match): they moved
            // to the back at that moment
            while silent_at < silent_events.len() && silent_events[silent_at].0 <= tx_index {
                let sid = silent_events[silent_at].1;
                silent_at += 1;
                self.apply_silent_replenish(sid);
            }
            if t.quantity == 0 {
                self.violate(Oracle::Account, "transaction with quantity 0".into());
            }
            if t.price != self.price {
                self.violate(Oracle::Account, format!("transaction price {} != level price {}", t.price, self.price));
            }
            if t.taker_order_id != taker {
                self.violate(Oracle::Account, "transaction carries another taker id".into());
            }
            if !self.seen_txids.insert(t.transaction_id) {
                self.violate(Oracle::Account, format!("transaction id {} issued twice", t.transaction_id));
            }
            let idx = match self.find(t.maker_order_id) {
                Some(i) => i,
                None => {
                    self.violate(
                        Oracle::Account,
                        format!("transaction names maker {} which is not resting", t.maker_order_id),
                    );
                    remaining = remaining.saturating_sub(t.quantity);
                    continue;
                }
            };
            *per_maker.entry(t.maker_order_id).or_insert(0) += 1;
            if traded_set.insert(id_key(t.maker_order_id)) {
                traded.push(t.maker_order_id);
            }
            // a display-0 order may have been replenished by a visit that produced no transaction
            if self.model[idx].cur.visible_quantity() == 0 {
                if let Some(nx) = silent_visit(&self.model[idx].cur) {
                    if nx != self.model[idx].cur {
                        self.clock += 1;
                        let rank = self.clock;
                        let e = &mut self.model[idx];
                        e.cur = nx;
                        e.rank = rank;
                        e.requeued = false;
                        e.touched = true;
                        self.facts.silent_replenish += 1;
                    }
                }
            }
            let cur = self.model[idx].cur;
            if t.taker_side != cur.side().opposite() {
                self.violate(Oracle::Account, format!("taker side {:?} is not opposite to maker side {:?}", t.taker_side, cur.side()));
            }
            if self.model[idx].partially_filled {
                self.facts.second_match_on_partial = true;
            }
            // ---- C04: nobody with displayed quantity and an earlier rank may be waiting
            let m_rank = self.model[idx].rank;
            let m_stale = self.stale_possible.contains(&cur.id());
            // (the pair check is linear in the number of resting orders: on very deep levels it
            // is evaluated for the first transactions of a match only)
            let pair_limit = if self.model.len() > 400 { 24 } else { usize::MAX };
            if self.model.len() > 400 && pairs_done >= pair_limit {
                self.facts.priority_checks_skipped_deep_level += 1;
            }
            pairs_done += 1;
            for j in 0..(if pairs_done - 1 < pair_limit { self.model.len() } else { 0 }) {
                if j == idx {
                    continue;
                }
                let x = &self.model[j];
                if x.cur.visible_quantity() == 0 {
                    continue;
                }
                if x.rank < m_rank {
                    // the known findings explain a deviation only if this match yields exactly the
                    // makers the documented ticket queue yields
                    let explained = self.tq_verdict != Some(false);
                    if explained && x.requeued && self.excuse_kf_c04_1 {
                        self.facts.kf_c04_1 += 1;
                    } else if explained && m_stale && self.excuse_kf_c04_2 {
                        self.facts.kf_c04_2 += 1;
                    } else {
                        let msg = format!(
                            "maker {} (arrival rank {}) traded while {} (rank {}) was waiting ahead of it{}",
                            brief(&cur), m_rank, brief(&x.cur), x.rank,
                            if explained { "" } else { " (and the makers of this match are not those the level's ticket queue yields, so the re-queue-at-tail / stale-ticket findings do not explain it)" }
                        );
                        self.violate(Oracle::Priority, msg);
                    }
                } else {
                    self.facts.strict_pairs += 1;
                }
            }
            let disp = cur.visible_quantity();
            let want = disp.min(remaining);
            if t.quantity > disp {
                self.violate(
                    Oracle::Account,
                    format!("maker {} traded {} with only {} displayed (over-fill)", brief(&cur), t.quantity, disp),
                );
            }
            if t.quantity != want {
                self.violate(
                    Oracle::Rule,
                    format!("maker {} traded {} but min(displayed {}, taker remaining {}) = {}", brief(&cur), t.quantity, disp, remaining, want),
                );
            }
            // step the model by what was observed
            // (follow the implementation when it deviates: a fill below the display is a
            // partial fill, anything else exhausts the display)
            let incoming = if t.quantity == want {
                remaining
            } else if t.quantity < disp {
                t.quantity
            } else {
                disp
            };
            let r = ref_match(&cur, incoming);
            let e = &mut self.model[idx];
            e.executed += t.quantity as u128;
            if e.executed as i128 > e.supplied {
                let msg = format!("order {} has traded {} in total but only ever supplied {}", e.id, e.executed, e.supplied);
                self.violations.push(Violation { oracle: Oracle::Account, step: self.step, msg });
            }
            remaining = remaining.saturating_sub(t.quantity);
            self.facts.txs += 1;
            match r.next {
                None => {
                    self.model_remove(idx);
                }
                Some(nx) => {
                    let e = &mut self.model[idx];
                    e.cur = nx;
                    e.touched = true;
                    if r.hidden_moved > 0 {
                        replenish_in_call += 1;
                        self.clock += 1;
                        e.rank = self.clock;
                        e.requeued = false;
                        self.facts.replenishments += 1;
                        self.event_since_match = true;
                        if Kind::of(&nx) == Kind::Iceberg {
                            e.tranche_unsynced = true;
                        }
                    } else {
                        e.requeued = true; // survivors are re-queued with push (tail): KF-C04-1
                        e.partially_filled = true;
                        self.facts.partial_fills += 1;
                    }
                    self.pushes += 1;
                }
            }
        }
        while silent_at < silent_events.len() {
            let sid = silent_events[silent_at].1;
            silent_at += 1;
            self.apply_silent_replenish(sid);
        }
        if traded.len() >= 2 {
            self.facts.sweep_multi = true;
        }
        if replenish_in_call >= 3 {
            self.facts.three_round_match = true;
        }
        if per_maker.values().any(|c| *c >= 2) {
            self.facts.multi_round_same_order = true;
        }
        self.exp_qty += executed;
        self.exp_value += executed * self.price as u128;
        // ---- C06 exhaustion
        let floor = (s as u128).min(sum_display);
        if executed < floor {
            self.violate(
                Oracle::Term,
                format!("match_order({}) executed {} although {} was displayed when it started", s, executed, sum_display),
            );
        }
        let listing = listing_of(&self.level);
        if res.remaining_quantity > 0 {
            if let Some(o) = listing.iter().find(|o| o.visible_quantity() > 0) {
                self.violate(
                    Oracle::Term,
                    format!("match_order({}) returned with {} remaining while {} still displays quantity", s, res.remaining_quantity, brief(o)),
                );
            }
        }
        // display-0 survivors are set aside and re-queued at the tail (counts as re-queued);
        // which ones exactly is known when the ticket queue predicted this match
        if self.tq_verdict == Some(true) {
            for id in &set_aside_exact {
                if let Some(i) = self.find(*id) {
                    self.model[i].requeued = true;
                }
            }
        } else {
            for e in self.model.iter_mut() {
                if e.cur.visible_quantity() == 0 && res.remaining_quantity > 0 {
                    e.requeued = true;
                }
            }
        }
        self.facts.set_aside_orders += self
            .model
            .iter()
            .filter(|e| e.cur.visible_quantity() == 0 && res.remaining_quantity > 0)
            .count() as u64;
        // ---- filled ids == makers that traded and are no longer listed
        let listed_ids: HashSet<OrderId> = listing.iter().map(|o| o.id()).collect();
        let mut want_filled: Vec<OrderId> = traded.iter().filter(|id| !listed_ids.contains(id)).copied().collect();
        let mut got_filled = res.filled_order_ids.clone();
        let dup = {
            let mut s = HashSet::new();
            got_filled.iter().any(|x| !s.insert(*x))
        };
        want_filled.sort_by_key(|x| x.to_string());
        got_filled.sort_by_key(|x| x.to_string());
        if dup || want_filled != got_filled {
            self.violate(
                Oracle::Account,
                format!(
                    "filled_order_ids {:?} but the makers that traded and left the book are {:?}",
                    res.filled_order_ids.iter().map(|x| x.to_string()).collect::<Vec<_>>(),
                    want_filled.iter().map(|x| x.to_string()).collect::<Vec<_>>()
                ),
            );
        }
        OpResult::Matched {
            requested: s,
            fills: txs.iter().map(|t| (t.maker_order_id, t.quantity)).collect(),
            remaining: res.remaining_quantity,
            complete: res.is_complete,
            filled: res.filled_order_ids.clone(),
        }
    }

    fn call_update(&mut self, u: OrderUpdate) -> Option<Result<Option<Arc<Order>>, String>> {
        self.concrete.push(Concrete::Update(u));
        match catch(|| self.level.update_order(u)) {
            Ok(r) => {
                self.concrete_results.push(OpResult::Updated(r.as_ref().map(|o| o.as_ref().map(|a| **a)).map_err(|e| e.to_string())));
                if self.hold {
                    if let Ok(Some(a)) = &r {
                        self.held.push(a.clone());
                    }
                }
                Some(r.map_err(|e| e.to_string()))
            }
            Err(m) => {
                self.concrete_results.push(OpResult::Aborted);
                self.violate(Oracle::Panic, format!("update_order({}) panicked: {m}", u));
                self.dead = true;
                None
            }
        }
    }

    /// cancel / move to another price: the order is handed back and leaves
    fn do_remove(&mut self, u: OrderUpdate, id: OrderId) -> OpResult {
        let before = self.fingerprint();
        self.note(|| format!("{}", u));
        let r = match self.call_update(u) {
            Some(r) => r,
            None => return OpResult::Aborted,
        };
        let res = r.clone().map(|o| o.map(|a| *a));
        match self.find(id) {
            Some(i) => {
                let e = self.model[i].clone();
                if e.touched {
                    self.facts.op_on_touched_order = true;
                    self.facts.update_on_touched_order = true;
                }
                match &r {
                    Ok(Some(o)) if **o == e.cur => {}
                    other => self.violate(
                        Oracle::Update,
                        format!(
                            "{} on resting {} returned {:?}",
                            u,
                            brief(&e.cur),
                            other.as_ref().map(|o| o.as_ref().map(|a| brief(a)))
                        ),
                    ),
                }
                if matches!(r, Ok(Some(_))) {
                    self.exp_removed += 1;
                }
                self.facts.removals += 1;
                self.stale_possible.insert(id);
                self.model_remove(i);
            }
            None => {
                if !matches!(r, Ok(None)) {
                    self.violate(Oracle::Update, format!("{} on an absent id returned {:?}", u, res));
                }
                let after = self.fingerprint();
                if after != before {
                    self.violate(Oracle::Update, format!("{} on an absent id changed the level", u));
                }
            }
        }
        OpResult::Updated(res)
    }

    fn do_same_price_move(&mut self, id: OrderId) -> OpResult {
        let before = self.fingerprint();
        let u = OrderUpdate::UpdatePrice { order_id: id, new_price: self.price };
        self.note(|| format!("{}", u));
        let r = match self.call_update(u) {
            Some(r) => r,
            None => return OpResult::Aborted,
        };
        let res = r.clone().map(|o| o.map(|a| *a));
        if r.is_ok() {
            self.violate(Oracle::Update, format!("price update to the level's own price was accepted: {:?}", res));
        }
        if self.fingerprint() != before {
            self.violate(Oracle::Update, "rejected price update changed the level".into());
        }
        OpResult::Updated(res.map_err(|_| "rejected".to_string()))
    }

    fn clamp_amend(&self, id: OrderId, q: u64) -> u64 {
        // keep the total ever supplied within 64 bits
        match self.find(id) {
            Some(i) => {
                let old = self.model[i].cur.visible_quantity();
                if q > old {
                    let room = self.headroom();
                    old + (q - old).min(room)
                } else {
                    q
                }
            }
            None => q,
        }
    }

    fn do_amend(&mut self, u: OrderUpdate, id: OrderId, q: u64) -> OpResult {
        let before = self.fingerprint();
        self.note(|| format!("{}", u));
        let r = match self.call_update(u) {
            Some(r) => r,
            None => return OpResult::Aborted,
        };
        let res = r.clone().map(|o| o.map(|a| *a));
        match self.find(id) {
            Some(i) => {
                let e = self.model[i].clone();
                if e.touched {
                    self.facts.op_on_touched_order = true;
                    self.facts.update_on_touched_order = true;
                }
                self.facts.amends += 1;
                self.event_since_match = true;
                self.stale_possible.insert(id);
                self.pushes += 1;
                match &r {
                    Ok(Some(o)) if amend_ok(&e.cur, q, o) => {
                        let new = **o;
                        let delta = new.visible_quantity() as i128 - e.cur.visible_quantity() as i128;
                        if delta > 0 {
                            self.supplied_total += delta as u128;
                        }
                        let m = &mut self.model[i];
                        m.supplied += delta;
                        m.cur = new;
                        self.tq_push(id);
                    }
                    other => {
                        self.tq = None;
                        self.violate(
                            Oracle::Update,
                            format!(
                                "{} on resting {} returned {:?}",
                                u,
                                brief(&e.cur),
                                other.as_ref().map(|o| o.as_ref().map(|a| brief(a)))
                            ),
                        );
                        // follow the implementation so the history can go on
                        if let Ok(Some(o)) = &r {
                            let delta = o.visible_quantity() as i128 + o.hidden_quantity() as i128
                                - e.cur.visible_quantity() as i128
                                - e.cur.hidden_quantity() as i128;
                            if delta > 0 {
                                self.supplied_total += delta as u128;
                            }
                            let m = &mut self.model[i];
                            m.supplied += delta;
                            m.cur = **o;
                        }
                    }
                }
            }
            None => {
                if !matches!(r, Ok(None)) {
                    self.violate(Oracle::Update, format!("{} on an absent id returned {:?}", u, res));
                }
                if self.fingerprint() != before {
                    self.violate(Oracle::Update, format!("{} on an absent id changed the level", u));
                }
            }
        }
        OpResult::Updated(res)
    }

    fn do_read(&mut self, k: ReadKind) -> OpResult {
        let before = self.fingerprint();
        self.facts.reads += 1;
        self.concrete.push(Concrete::Read(k));
        self.concrete_results.push(OpResult::Read);
        if let Err(m) = perform_read(&self.level, k) {
            self.violate(Oracle::Update, format!("read-only call {:?} failed: {m}", k));
        }
        if matches!(k, ReadKind::Snapshot | ReadKind::Package | ReadKind::SnapshotJson) {
            self.check_snapshot_figures();
        }
        self.check_read_content(k);
        if self.fingerprint() != before {
            self.violate(Oracle::Update, format!("read-only call {:?} changed the level", k));
        }
        OpResult::Read
    }

    /// C01: the snapshot's figures agree with the listing (checked at snapshot-type reads and at
    /// the end of a history, not after every step: the interpreter's own per-step observations
    /// are limited to the listing and the aggregate getters)
    pub fn check_snapshot_figures(&mut self) {
        let listing = listing_of(&self.level);
        let sum_vis: u128 = listing.iter().map(|o| o.visible_quantity() as u128).sum();
        let sum_hid: u128 = listing.iter().map(|o| o.hidden_quantity() as u128).sum();
        let snap = self.level.snapshot();
        let mut a: Vec<Order> = snap.orders.iter().map(|x| **x).collect();
        let mut b = listing.clone();
        a.sort_by_key(|o| o.id().to_string());
        b.sort_by_key(|o| o.id().to_string());
        if snap.visible_quantity as u128 != sum_vis
            || snap.hidden_quantity as u128 != sum_hid
            || snap.order_count != listing.len()
            || snap.price != self.price
            || a != b
        {
            self.violate(
                Oracle::Agg,
                format!(
                    "snapshot says visible={} hidden={} count={} with {} orders, but the level lists {} orders summing to {} / {}",
                    snap.visible_quantity, snap.hidden_quantity, snap.order_count, snap.orders.len(), listing.len(), sum_vis, sum_hid
                ),
            );
        }
    }

    /// What a content-bearing read-only call returns is decoded again and must describe the level
    /// as it is now: same price, same orders field for field, same aggregates (a rendering that is
    /// out of date, e.g. served from a cache an earlier call filled, is neither pure nor a round trip).
    fn check_read_content(&mut self, k: ReadKind) {
        let p = match k {
            ReadKind::Snapshot => RebuildPath::FromSnapshot,
            ReadKind::Package => RebuildPath::Package,
            ReadKind::SnapshotJson => RebuildPath::Json,
            ReadKind::Display => RebuildPath::Text,
            ReadKind::SerdeJson => RebuildPath::Serde,
            ReadKind::Data => RebuildPath::Data,
            _ => return,
        };
        // (levels whose sums were allowed to exceed 64 bits have no faithful rendering)
        if self.wrap_ok || self.dead {
            return;
        }
        let built = self.render_and_decode(p);
        let new = match built {
            Ok(Ok(l)) => l,
            Ok(Err(e)) => {
                let m = format!("what the read-only call {:?} returned cannot be decoded again: {e}", k);
                self.violate(Oracle::Update, m.clone());
                self.violate(Oracle::Rebuild, m);
                return;
            }
            Err(m) => {
                self.violate(Oracle::Panic, format!("decoding what the read-only call {:?} returned panicked: {m}", k));
                return;
            }
        };
        self.facts.read_contents_checked += 1;
        let key = |o: &Order| o.id().to_string();
        let mut a = listing_of(&self.level);
        let mut b = listing_of(&new);
        a.sort_by_key(key);
        b.sort_by_key(key);
        let agg = |l: &PriceLevel| (l.price(), l.visible_quantity(), l.hidden_quantity(), l.order_count());
        if a != b || agg(&new) != agg(&self.level) {
            let m = format!(
                "the read-only call {:?} returned content that does not describe the level: the level holds [{}] (price/visible/hidden/count {:?}), the returned content decodes to [{}] ({:?})",
                k,
                a.iter().map(brief).collect::<Vec<_>>().join(", "),
                agg(&self.level),
                b.iter().map(brief).collect::<Vec<_>>().join(", "),
                agg(&new)
            );
            self.violate(Oracle::Update, m.clone());
            self.violate(Oracle::Rebuild, m);
        }
    }

    fn render_and_decode(&self, p: RebuildPath) -> Result<Result<PriceLevel, String>, String> {
        let level = &self.level;
        catch(|| match p {
            RebuildPath::FromSnapshot => PriceLevel::from_snapshot(level.snapshot()).map_err(|e| e.to_string()),
            RebuildPath::FromSnapshotRef => Ok(PriceLevel::from(&level.snapshot())),
            RebuildPath::Package => level
                .snapshot_package()
                .and_then(PriceLevel::from_snapshot_package)
                .map_err(|e| e.to_string()),
            RebuildPath::Json => level
                .snapshot_to_json()
                .and_then(|j| PriceLevel::from_snapshot_json(&j))
                .map_err(|e| e.to_string()),
            RebuildPath::Serde => serde_json::to_string(level)
                .map_err(|e| e.to_string())
                .and_then(|j| serde_json::from_str::<PriceLevel>(&j).map_err(|e| e.to_string())),
            RebuildPath::Text => PriceLevel::from_str(&level.to_string()).map_err(|e| e.to_string()),
            RebuildPath::Data => PriceLevel::try_from(PriceLevelData::from(level)).map_err(|e| e.to_string()),
        })
    }

    fn do_rebuild(&mut self, p: RebuildPath) -> OpResult {
        self.note(|| format!("rebuild via {:?}", p));
        let level = &self.level;
        let built: Result<Result<PriceLevel, String>, String> = catch(|| match p {
            RebuildPath::FromSnapshot => PriceLevel::from_snapshot(level.snapshot()).map_err(|e| e.to_string()),
            RebuildPath::FromSnapshotRef => Ok(PriceLevel::from(&level.snapshot())),
            RebuildPath::Package => level
                .snapshot_package()
                .and_then(PriceLevel::from_snapshot_package)
                .map_err(|e| e.to_string()),
            RebuildPath::Json => level
                .snapshot_to_json()
                .and_then(|j| PriceLevel::from_snapshot_json(&j))
                .map_err(|e| e.to_string()),
            RebuildPath::Serde => serde_json::to_string(level)
                .map_err(|e| e.to_string())
                .and_then(|j| serde_json::from_str::<PriceLevel>(&j).map_err(|e| e.to_string())),
            RebuildPath::Text => PriceLevel::from_str(&level.to_string()).map_err(|e| e.to_string()),
            RebuildPath::Data => PriceLevel::try_from(PriceLevelData::from(level)).map_err(|e| e.to_string()),
        });
        self.facts.rebuilds += 1;
        if self.model.iter().any(|e| e.touched) {
            self.facts.rebuild_with_touched = true;
        }
        let new = match built {
            Ok(Ok(l)) => l,
            Ok(Err(e)) => {
                self.violate(Oracle::Rebuild, format!("rebuilding the level via {:?} failed: {e}", p));
                return OpResult::Rebuilt(false);
            }
            Err(m) => {
                self.violate(Oracle::Rebuild, format!("rebuilding the level via {:?} panicked: {m}", p));
                return OpResult::Rebuilt(false);
            }
        };
        // same price, same orders (as a set, field for field), same aggregates
        let old_list = listing_of(&self.level);
        let new_list = listing_of(&new);
        let key = |o: &Order| o.id().to_string();
        let mut a = old_list.clone();
        let mut b = new_list.clone();
        a.sort_by_key(key);
        b.sort_by_key(key);
        if new.price() != self.level.price() {
            self.violate(Oracle::Rebuild, format!("{:?}: price {} became {}", p, self.level.price(), new.price()));
        }
        if a != b {
            self.violate(
                Oracle::Rebuild,
                format!(
                    "{:?}: orders differ after the round trip: before [{}] after [{}]",
                    p,
                    a.iter().map(brief).collect::<Vec<_>>().join(", "),
                    b.iter().map(brief).collect::<Vec<_>>().join(", ")
                ),
            );
        }
        if (new.visible_quantity(), new.hidden_quantity(), new.order_count())
            != (self.level.visible_quantity(), self.level.hidden_quantity(), self.level.order_count())
        {
            self.violate(
                Oracle::Rebuild,
                format!(
                    "{:?}: aggregates {}/{}/{} became {}/{}/{}",
                    p,
                    self.level.visible_quantity(),
                    self.level.hidden_quantity(),
                    self.level.order_count(),
                    new.visible_quantity(),
                    new.hidden_quantity(),
                    new.order_count()
                ),
            );
        }
        self.level = new;
        self.stats_handle = Some(self.level.stats());
        // a rebuilt level has a fresh queue (listing order) and fresh statistics
        self.stale_possible.clear();
        self.stats_known = false;
        self.pushes = self.model.len() as u64;
        let order: HashMap<OrderId, usize> = new_list.iter().enumerate().map(|(i, o)| (o.id(), i)).collect();
        // the rebuilt level queues the listed orders in listed (timestamp) order; with tied
        // timestamps that order is not determined by the content
        self.tq = if new_list.windows(2).all(|w| w[0].timestamp() < w[1].timestamp()) {
            Some(new_list.iter().map(|o| o.id()).collect())
        } else {
            None
        };
        for e in self.model.iter_mut() {
            e.requeued = false;
        }
        let base = self.clock;
        for e in self.model.iter_mut() {
            e.rank = base + 1 + *order.get(&e.id).unwrap_or(&0) as u64;
        }
        self.clock = base + 1 + self.model.len() as u64;
        OpResult::Rebuilt(true)
    }
}

/// Run a whole history; returns the interpreter (violations, facts) and the result trace.
pub fn run_history(h: &History, skip_reads: bool, keep_trace: bool) -> (Interp, Vec<OpResult>) {
    run_history_with(h, skip_reads, keep_trace, (true, true))
}

pub fn run_history_with(h: &History, skip_reads: bool, keep_trace: bool, excuse: (bool, bool)) -> (Interp, Vec<OpResult>) {
    let mut it = Interp::new(h);
    it.stats_handle = Some(it.level.stats());
    it.excuse_kf_c04_1 = excuse.0;
    it.excuse_kf_c04_2 = excuse.1;
    it.skip_reads = skip_reads;
    it.keep_trace = keep_trace;
    let mut results = Vec::with_capacity(h.ops.len());
    for op in &h.ops {
        let r = it.apply(op);
        results.push(r);
        if it.dead {
            break;
        }
    }
    if !it.dead {
        it.check_snapshot_figures();
    }
    (it, results)
}

pub fn describe(h: &History) -> serde_json::Value {
    let (it, _) = run_history(h, false, true);
    serde_json::json!({
        "price": h.price,
        "profile": format!("{:?}", h.profile),
        "timestamps": format!("{:?}", h.ts_mode),
        "ops": it.trace,
        "final_listing": listing_of(&it.level).iter().map(brief).collect::<Vec<_>>(),
    })
}

pub fn kinds_label(f: &Facts) -> String {
    ALL_KINDS
        .iter()
        .enumerate()
        .filter(|(i, _)| f.kinds_seen[*i])
        .map(|(_, k)| k.name())
        .collect::<Vec<_>>()
        .join("+")
}

pub fn _unused(_: BTreeMap<u8, u8>, _: PriceLevelSnapshot) {}
