#!/usr/bin/env python3
"""Regenerate the table of seeded changes in DESIGN.md (section 11.5) from seeded/*/meta.json."""
import json, os, re
rows=[]
for k in sorted(os.listdir('/verif/seeded')):
    f=f'/verif/seeded/{k}/meta.json'
    if not os.path.exists(f): continue
    m=json.load(open(f))
    br=' '.join(m.get('breaks','').split())
    br=(br[:140]+' …') if len(br)>140 else br
    cr=m.get('check_result',{})
    tier=cr.get('tier','quick'); tier='quick' if tier=='quick' else ('thorough' if tier.startswith('thorough') else tier)
    v=cr.get('violation') or ''
    v=' '.join(v.split())
    if cr.get('exit')==1:
        txt=f"{tier}: {(v[:90]+' …') if len(v)>90 else v}" if v else f"{tier}: (see meta.json)"
        if cr.get('by'): txt=f"{cr['by']} {txt}"
    elif m.get('status'):
        txt=m['status']
    else:
        txt='not caught'
    rows.append(f"| {k} | {br.replace('|','/')} | {txt.replace('|','/')} |")
s=open('/verif/DESIGN.md').read()
a=s.index('| change | what it breaks |')
b=s.index('\n\n',a)
s=s[:a]+'| change | what it breaks | caught by the target property\'s check |\n|---|---|---|\n'+'\n'.join(rows)+s[b:]
open('/verif/DESIGN.md','w').write(s)
print(len(rows),'rows')
