#!/bin/bash
# tools_mutant.sh <patch.diff> <Cxx>... : apply a seeded change to /repo, run the quick checks, undo it.
# (never leaves /repo modified; refuses to run if /repo is dirty)
set -u
P="$1"; shift
if [ -n "$(git -C /repo status --porcelain --untracked-files=no)" ]; then echo "/repo is dirty" >&2; exit 2; fi
git -C /repo apply "$P" || { echo "patch does not apply" >&2; exit 2; }
trap 'git -C /repo checkout -- . ' EXIT
for id in "$@"; do
  out=$(VERIF_EVIDENCE=/verif/harness/target/mutant-evidence-$id.json /verif/check "$id" quick 2>&1); rc=$?
  echo "== $id rc=$rc :: $(echo "$out" | grep -E 'VIOLATION|violation:|BUILD FAILED|WATCHDOG' | head -3 | tr '\n' ' ' | cut -c1-400)"
done
