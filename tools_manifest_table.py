ENGINES = [
 {"name":"E1 history","path":"harness/src/seq.rs","serves_properties":["C01","C02","C04","C06","C07","C15"],"kind_free_text":"proptest-generated operation histories interpreted on a real PriceLevel against a trace-driven reference model; all oracles after every step"},
 {"name":"E3 codec","path":"harness/src/checks/codec.rs","serves_properties":["C16","C17"],"kind_free_text":"proptest value generators (boundary-biased) and print->parse round trips"},
 {"name":"E4 tamper","path":"harness/src/checks/c09.rs","serves_properties":["C09"],"kind_free_text":"per generated content, full enumeration of single-byte faults and truncations of the serialized package plus structural edits and fault pairs"},
 {"name":"E5 pure rule","path":"harness/src/checks/c05.rs","serves_properties":["C05"],"kind_free_text":"exhaustive small grid + boundary product + random points against an independent reference rule"},
 {"name":"E6 totality","path":"harness/src/checks/c18.rs","serves_properties":["C18"],"kind_free_text":"mutated valid encodings, token soup and arbitrary Unicode into every parser; no-panic oracle"},
]
NOTES = "All checks are property-based: generated inputs / histories / schedules / faults against explicit oracles, proptest as the driver (16 workers, seeds derived from VERIF_SEED), shrunk failures saved as JSON replay files under /verif/replays. Exit 0 held, 1 VIOLATION, 2 infrastructure (build failure, watchdog) and never a violation. Known findings are listed in /verif/known_findings.json."
H = "generated-input search only: no proof; bounded history length and value profiles (DESIGN §3, §9); trusts dashmap/crossbeam and the reference model in harness/src/model.rs"
add("C01","E1 history","exploration","Stateful property-based test: after every operation of generated histories the level's aggregates and snapshot figures are compared with the sums over its own listing. An invariant on observable state, so it cannot false-alarm; it is exploration, not proof.",H,"stateful property-based testing (proptest histories + per-step invariant)","DESIGN.md §5 C01")
add("C02","E1 history","exploration","Stateful property-based test: every MatchResult of generated histories is audited against a trace-driven model (accounting identities, transaction fields, lifetime fill bound, filled-order list).",H,"stateful property-based testing with a trace-driven reference model","DESIGN.md §5 C02")
add("C04","E1 history","exploration","Stateful property-based test: ideal arrival ranks maintained by the model; every transaction is checked against all waiting orders; pairs explained by the two listed known findings are counted, everything else is a violation.",H+"; attribution to known findings uses monotone flags (stated limitation)","stateful property-based testing, history invariant on arrival ranks","DESIGN.md §5 C04")
add("C05","E5 pure rule","exploration","The per-order rule is a pure function: an exhaustive grid of small values and the full product of 64-bit boundary values are enumerated on every run, plus random points, each compared field for field with an independent reference implementation, directly and through a level.","independent reference rule written from the statement; iceberg tranche accepted within the stated bounds","exhaustive small-scope enumeration + property-based random points vs reference model","DESIGN.md §5 C05")
add("C06","E1 history","exploration","Stateful property-based test with zero-quantity states; termination is decided by a budget of shared-memory steps counted through the verif hook (no wall clock), exhaustion of displayed liquidity by post-conditions on each match.",H+"; match sizes clamped so a correct sweep needs a bounded number of rounds","stateful property-based testing with a step-budget termination oracle","DESIGN.md §5 C06")
add("C07","E1 history","exploration","Stateful property-based test of all five update kinds and the read-only calls: model-predicted return values and effects, fingerprint purity, and a metamorphic twin run with the reads deleted.",H,"stateful property-based testing + metamorphic twin runs","DESIGN.md §5 C07")
add("C09","E4 tamper","fault_enumeration","Per generated level content the single-fault space of its serialized package (every prefix, every per-offset substitution / deletion / insertion from a palette) is enumerated completely, plus structural edits and fault pairs, through all three restore paths; success is allowed only for a semantically identical package.","SHA-256; canonicalisation of accepted packages by the library's own serializer","fault injection enumerated over every offset of generated packages","DESIGN.md §5 C09")
add("C15","E1 history","exploration","Statistics are compared with the event stream after every operation of generated histories (sequential half).",H+"; concurrent half pending the scheduler engine","stateful property-based testing (event-count oracle)","DESIGN.md §5 C15")
add("C16","E3 codec","exploration","Round-trip property over boundary-biased generated values of every text-codec type.","value generators cover the listed boundary set; equality is field for field","property-based round-trip testing","DESIGN.md §5 C16")
add("C17","E3 codec","exploration","Round-trip property over boundary-biased generated values of every serde type; packages must still validate and restore.","as C16","property-based round-trip testing","DESIGN.md §5 C17")
add("C18","E6 totality","exploration","Generated malformed inputs (mutations of valid encodings incl. multi-byte characters, token soup, arbitrary Unicode) into all 31 parser entry points under catch_unwind.","hangs are only caught by the outer watchdog (exit 2)","property-based robustness testing (mutational + grammar soup)","DESIGN.md §5 C18")
ENGINES += [
 {"name":"E2 schedule","path":"harness/src/sched.rs + harness/src/conc.rs","serves_properties":["C03","C08","C12","C13","C14","C15"],"kind_free_text":"deterministic baton scheduler driven by the verif hook: (thread program, schedule byte vector) pairs generated and shrunk by proptest; quiescent oracles, per-order linearization search, stop-the-world probes between steps"},
 {"name":"E1q queue history","path":"harness/src/checks/c19.rs","serves_properties":["C19"],"kind_free_text":"stateful sequences on OrderQueue against a Vec model"},
 {"name":"E1d restore differential","path":"harness/src/checks/c11.rs","serves_properties":["C11"],"kind_free_text":"original vs restored vs fresh-level differential over generated continuations"},
]
ENGINES[0]["serves_properties"] = ["C01","C02","C04","C06","C07","C10","C11","C15"]
S = "sequential consistency at the granularity of individual atomic / map / queue operations; dashmap and crossbeam operations trusted as linearizable; schedules sampled (sparse, uniform, k-preemption), not enumerated"
add("C03","E2 schedule","exploration","Generated thread programs run under a scheduler that owns the interleaving (the schedule is a generated, shrinkable byte vector); at quiescence the aggregate invariant and an existential per-order linearization search over the observed fills / amends / cancels decide conservation.",S,"property-based testing over (program, schedule) pairs with a deterministic scheduler + linearizability-style search","DESIGN.md §5 C03")
add("C08","E2 schedule","exploration","As C03 plus a draining match after quiescence (must consume exactly the displayed and replenishable quantity and leave nothing matchable) and programs on the bare OrderQueue (multiset accounting of pushed vs handed-out orders, find/remove answers against call intervals).",S,"property-based testing over (program, schedule) pairs; drain and multiset oracles","DESIGN.md §5 C08")
add("C12","E2 schedule","exploration","A stop-the-world probe before every shared-memory step of every thread of generated (program, schedule) pairs reads the aggregates and bounds them by what has been supplied so far; a wrapped counter cannot hide.",S,"property-based testing over (program, schedule) pairs with per-step probes","DESIGN.md §5 C12")
add("C13","E2 schedule","exploration","Generated cancel/amend-heavy programs; not-found answers for orders that stay in the book are classified by a probe at the call's last lookup step (in the map => violation; held by a matcher => the listed known finding), success answers are validated by the per-order linearization.",S+"; the known finding KF-C13-1 is recognised by signature and counted","property-based testing over (program, schedule) pairs; interval-based acknowledgement oracle","DESIGN.md §5 C13")
add("C14","E2 schedule","exploration","Sequential generators (namespaces, start counters restored through serde incl. near u64::MAX, up to 30000 calls), scheduled concurrent next() calls on an instrumented counter, and level programs sharing one generator: ids pairwise distinct and reproducible by a second generator.","no formula hard-coded; "+S,"property-based testing (sequential + scheduled concurrent)","DESIGN.md §5 C14")
C["C15"]["engine"]="E1 history + E2 schedule"
C["C15"]["level_claimed"]["text"]="Statistics are compared with the event stream after every operation of generated histories, and at quiescence of generated (program, schedule) pairs (a split counter update loses increments only under a preemption the scheduler can place)."
C["C15"]["level_note"]=H+"; "+S
C["C15"]["technique"]="stateful property-based testing + (program, schedule) pairs; event-count oracle"
add("C10","E1 history","exploration","Histories with rebuilds through all seven round-trip paths (content and aggregates must survive; listing shape after every step) and externally supplied inputs with perturbed aggregates through eight constructors (aggregates must be derived).",H,"stateful property-based testing + round-trip / derived-aggregate properties on generated external inputs","DESIGN.md §5 C10")
add("C11","E1d restore differential","exploration","Differential property: the same generated continuation on the original, the restored and a fresh re-added level; restored==fresh always, original==restored whenever queue order is strictly increasing in timestamp and no stale ticket is involved; the rest is the listed known finding.",H+"; the original's queue order is read off a drained twin run","differential property-based testing (three-way)","DESIGN.md §5 C11")
add("C19","E1q queue history","exploration","Model-based stateful test of OrderQueue on its own (push/pop/find/remove/len/is_empty/to_vec and rebuilds from list, text and JSON) against a Vec model; the model follows the implementation only through the listed stale-ticket finding.","Vec model written from the statement","stateful model-based property testing","DESIGN.md §5 C19")
ENGINES += [
 {"name":"F libFuzzer","path":"fuzz/ (targets parse_any, snapshot_tamper, history; decoders and oracles in harness/src/fuzzdec.rs)","serves_properties":["C18","C09","C01","C02","C06"],"kind_free_text":"coverage-guided byte-level fuzzing (cargo +nightly fuzz, sanitizer none: the crate has no unsafe code) with the semantic oracle inside the target; thorough tiers only; artifacts are converted into replay files and re-executed outside the fuzzer before being reported"},
]
for i in ("C01","C02","C06","C09","C18"):
    C[i]["technique"] += " + coverage-guided libFuzzer campaign (thorough tier)"
for i in ("C03","C08","C12","C13"):
    C[i]["technique"] += " + exhaustive enumeration of all schedules with a bounded number of preemptions over a program catalogue"
    C[i]["level_note"] = C[i]["level_note"].replace("not enumerated","plus complete enumeration of all <=1-preemption (quick) / <=3 (2 threads) and <=2 (3 threads) preemption schedules (thorough) over a fixed catalogue of 887 small programs")
# ---- texts updated after rounds 2 and 3 (DESIGN 11.6, 11.7)
ENGINES += [
 {"name":"S real-thread stress","path":"harness/src/checks/concur.rs (stress_c08, stress_c13, generator_stress)","serves_properties":["C08","C13","C14"],"kind_free_text":"short rounds of real threads with oracles that hold under every interleaving; the only part that is not schedule-controlled and not replayable, for code that is not built from instrumented operations (try-locks, std locks)"},
]
SZ = " Sizes (bulk add+cancel churn, bursts of resting orders, list lengths, level depths, sweep depths) come from a distribution that visits every power of two up to 2^14 (quick) / 2^17 (thorough) elements."
for i in ("C01","C02","C04","C05","C06","C07","C10","C11","C15","C19"):
    C[i]["level_note"] += SZ
C["C02"]["engine"] = "E1 history + E2 schedule"
C["C02"]["level_claimed"]["text"] += " The lifetime bound (no order trades more than it brought) is also checked under concurrency by the per-order linearization search over scheduled thread programs, and MatchResult built incrementally by a second generator."
C["C03"]["level_claimed"]["text"] += " A draining match after quiescence must be able to execute everything still listed (a unit that rests but cannot be matched is lost)."
C["C05"]["level_claimed"]["text"] += " Histories with the Rule oracle cover the same rules through levels holding many orders; orders carrying caller-defined extra fields must behave identically."
C["C07"]["level_claimed"]["text"] += " The twins are blind replays of the recorded calls on fresh levels (the harness observes nothing between calls), plus a twin with a churn of extra orders inserted."
for i in ("C08","C13","C14"):
    C[i]["engine"] += " + S real-thread stress"
    C[i]["level_claimed"]["text"] += " Short real-thread stress rounds (oracles valid under every interleaving) cover code the scheduler cannot preempt (try-locks, std locks)."
    C[i]["technique"] += " + real-thread stress rounds"
C["C09"]["level_claimed"]["text"] += " Packages of 8-16 KiB and 100-150 KiB get the same faults at every offset near 512-byte / 8 KiB boundaries; structural edits include inserting a foreign order and re-encoding an id in the other format."
C["C17"]["level_claimed"]["text"] += " Every value is also decoded through from_reader, from_slice, to_value->from_value, key-sorted and pretty-printed text; successive versions of a level are decoded while earlier decoded values are alive."
C["C18"]["level_claimed"]["text"] += " Inputs of up to 600 KB (one token repeated up to 130 000 times inside a valid encoding) are parsed in a child process on a 2 MiB stack so that a stack overflow or abort is observed."
# ---- texts updated after round 4 (DESIGN 11.8)
TR = " Every fourth worker runs under a log subscriber that enables and formats every tracing event (behaviour must not depend on the log level)."
for i in C:
    C[i]["level_note"] += TR
for i in ("C01","C02","C04","C05","C06","C07","C10","C11","C15"):
    C[i]["level_claimed"]["text"] += " One order in eight carries a price field different from the level's (add_order accepts any order); price-moving updates also aim at that price."
TQ = " The known findings are delimited exactly: the interpreter tracks the level's documented ticket queue (ids queued on every push, tickets left behind by removals, set-aside orders re-queued after the match) and predicts the makers and quantities of every match from it; a deviation from arrival order is attributed to a known finding only if the match is the one that queue yields (on the unchanged tree the prediction is exact for every match; counters in the evidence). Three in ten histories contain orders that show nothing, Revive operations that amend them back to a positive display, and match sizes ending exactly after the k-th fill of a full sweep."
C["C04"]["level_claimed"]["text"] += TQ
C["C11"]["level_claimed"]["text"] += TQ.replace("a deviation from arrival order is attributed to a known finding only if the match is the one that queue yields","original and restored level may differ (KF-C11-1) only if the original's tickets of resting and re-added ids are not the resting orders once each in strictly increasing timestamp order")
C["C02"]["level_claimed"]["text"] += " Appended transaction sequences include exact repetitions of the previous transaction."
C["C07"]["level_claimed"]["text"] += " Read-only calls include Debug formatting and JSON serialization into a writer that fails part-way."
C["C09"]["level_claimed"]["text"] += " Coordinated text-level edits: every re-split of the digits of two adjacent numeric fields, and wrapping (the original body or package kept under unknown / duplicate / nested keys around an edited snapshot)."
C["C10"]["level_claimed"]["text"] += " External inputs include packages sealed outside the library (figures as supplied, SHA-256 over exactly those bytes) as struct and as JSON."
C["C12"]["level_claimed"]["text"] += " Programs and the catalogue include reserve orders that show nothing until a match reaches them."
for i in ("C03","C08","C13"):
    C[i]["level_claimed"]["text"] += " Pre-loaded orders include reserve orders that show nothing until a match reaches them (the linearization has a step without an event for that silent replenishment)."
C["C14"]["level_claimed"]["text"] += " 2-4 generators with namespaces a few bits apart (or equal) and nearby start counters are called alternately on one thread: each must issue exactly what it issues when used alone."
C["C15"]["level_claimed"]["text"] += " Order timestamps include 2^63 and other 64-bit boundaries offset by wall-clock-sized amounts."
for i in ("C16","C17"):
    C[i]["level_claimed"]["text"] += " Decoding is checked to be a function of the text alone: damaged copies of each encoding are fed to the same decoder between two decodings of the intact text; values are also serialized into a writer that fails after a generated number of bytes and must serialize identically afterwards; snapshots may list the same shared order allocation twice."
C["C18"]["level_claimed"]["text"] += " Edits include swapping two whole fields and moving blocks."
C["C19"]["level_claimed"]["text"] += " Rendering the queue (Debug, text, JSON, JSON into a failing writer, Value) is a generated operation that must change nothing."
# ---- texts updated after round 5 (DESIGN 11.9)
ENGINES += [
 {"name":"P unhooked-build replay","path":"plain/ (crate plvplain, depends on pricelevel WITHOUT the verif feature) + harness/src/checks/hist.rs (export_plain)","serves_properties":["C01","C02","C03","C06","C07"],"kind_free_text":"generated histories replayed call by call on the library built without the instrumentation (results and aggregates must equal the instrumented build's, every call must return) and a real-thread stress with conservation / drain oracles on that build"},
]
for i in ("C01","C02","C06","C07"):
    C[i]["engine"] += " + P unhooked-build replay"
    C[i]["level_claimed"]["text"] += " Generated histories are also replayed call by call on the library built WITHOUT the verif feature (real dashmap and crossbeam queue): every call must return and every match / update result and the aggregates after every call must equal what the instrumented build gave."
    C[i]["technique"] += " + differential replay instrumented build vs unhooked build"
C["C03"]["engine"] += " + P unhooked-build replay"
C["C03"]["level_claimed"]["text"] += " A real-thread stress on the library built WITHOUT the verif feature (8 threads x 400 operations per round; even rounds add / match / cancel / snapshot with unit accounting, odd rounds the full mix incl. amendments, moves and renderings) checks that all threads finish, aggregates equal the listing sums, every unit added is executed, handed back or resting (even rounds), and a draining match empties the level."
C["C03"]["technique"] += " + real-thread stress on the unhooked build"
C["C06"]["level_note"] += " On the unhooked build 'did not return' is a wall-clock observation (120 s, confirmed in a fresh process with 300 s; one slow attempt is reported as inconclusive, exit 2)."
C["C19"]["level_claimed"]["text"] += " The known finding KF-C19-1 is delimited exactly by tracking the queue's ticket FIFO; re-pushing the very allocation that remove(id) handed back is a generated operation."
C["C15"]["level_claimed"]["text"] += " Statistics are read alternately through a handle taken when the level was created and through a fresh one."
C["C14"]["level_claimed"]["text"] += " Restored generators also come from the sequence form and from reordered-key / reader forms of their serde encoding."
C["C18"]["level_claimed"]["text"] += " Byte-length-preserving edits (a character widened to a multi-byte one, following characters deleted to compensate)."
C["C09"]["level_claimed"]["text"] += " Unwrapped texts (an edited snapshot body alone, with half an envelope, or spliced into the envelope)."
C["C17"]["level_claimed"]["text"] += " Packages carrying arbitrary checksum text (quotes, backslashes, control characters, non-ASCII) and other versions must survive to_json / from_json and serde unchanged."
# ---- texts updated after round 6 (DESIGN 11.11)
for i in ("C01","C02","C06","C07","C10","C15"):
    C[i]["level_claimed"]["text"] += " What every content-bearing read-only call returns (snapshot, package, snapshot JSON, text, serde JSON, level data) is decoded again and must equal the live level in price, orders and aggregates; one history in seven makes one fixed read-only call after every operation."
C["C11"]["level_claimed"]["text"] += " One case in five is a constructed scene: dormant orders (showing nothing, unable to replenish) among replenishing and plain ones, small matches ending on fill boundaries, and a continuation that amends every dormant order back to life and trades one fill at a time."
C["C14"]["level_claimed"]["text"] += " Scheduled programs share a generator restored at counters whose next values straddle the wrap-around (or 2^16, 2^31, 2^32, 2^63, 10^5, 10^19)."
for i in ("C03","C08","C12","C13","C15"):
    C[i]["level_claimed"]["text"] += " Thread programs also resubmit a cancelled order under the same id (cancel, then add by the same thread, new timestamp); the per-order linearization accepts that add after the removal."
C["C03"]["level_claimed"]["text"] = C["C03"]["level_claimed"]["text"].replace("8 threads x 400 operations per round;", "8 threads x 400 operations per long round (two rounds in eight) and x 25 per short round, each thread ending with three add-then-list pairs; 1 600 rounds quick, 80 000 thorough;")
C["C10"]["level_claimed"]["text"] += " Externally written texts come with their fields rotated / reversed."
C["C19"]["level_claimed"]["text"] += " The queue is also rendered (Display / Debug) into fmt::Write and io::Write sinks that fail part-way; after every rendering the text and JSON forms taken next must decode to the queued orders."
C["C11"]["level_claimed"]["text"] += " Prefixes contain read-only calls before the snapshot is taken, scenes contain orders of the kinds a match drops silently, and before anything is traded the restored level must hold exactly the orders resting on the original."
