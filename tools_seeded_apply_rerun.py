#!/usr/bin/env python3
"""Fold the lines printed by tools_seeded_rerun.sh (files given as arguments) into seeded/*/meta.json."""
import json, sys, re, os
for f in sys.argv[1:]:
    for line in open(f):
        m=re.match(r'^(\S+) (quick|thorough10) CAUGHT', line)
        mm=re.match(r'^(\S+) (MISSED|INCONCLUSIVE)', line)
        if not (m or mm): continue
        key=(m or mm).group(1)
        p=f'/verif/seeded/{key}/meta.json'
        if not os.path.exists(p): continue
        meta=json.load(open(p)); cr=meta.setdefault('check_result',{})
        by=cr.get('by_check') or key.split('-')[0]
        if m:
            tier='quick' if m.group(2)=='quick' else 'thorough (case counts scaled by 0.1)'
            if cr.get('tier')!=tier or cr.get('exit')!=1:
                cr['violation']=cr.get('violation') if cr.get('tier')==tier else None
            cr['tier']=tier; cr['exit']=1
            cr['cmd']=f"git -C /repo apply seeded/{key}/patch.diff && ./check {by} "+("quick" if tier=='quick' else "thorough")+" ; git -C /repo checkout -- ."
            cr['rechecked_against_final_harness']=True
        else:
            if not meta.get('status'):
                cr['exit']=0; cr['rechecked_against_final_harness']=True; cr['tier']='not caught in the last re-run: '+line.strip()[:120]
        json.dump(meta,open(p,'w'),indent=1)
print('folded')
