//! plvplain <cases.json> [<fail-out.json>]
//! exit 0: every call returned and every result / aggregate equals the instrumented build's;
//! exit 1: a result differs (details printed, failing case written to <fail-out.json>);
//! exit 3: a call did not return within the patience (case written to <fail-out.json>).

use pricelevel::{OrderId, OrderType, OrderUpdate, PriceLevel, UuidGenerator};
use serde_json::{json, Value};
use std::str::FromStr;
use std::sync::mpsc;
use std::time::Duration;

#[derive(Debug)]
enum Progress {
    Started { case: usize, call: usize },
    Mismatch { case: usize, call: usize, what: String },
    Done { cases: usize, calls: u64 },
}

fn run_case(ci: usize, case: &Value, tx: &mpsc::Sender<Progress>) -> Result<u64, ()> {
    let level = PriceLevel::new(case["price"].as_u64().unwrap_or(0));
    let gen = UuidGenerator::new(uuid::Uuid::from_u128(0x5eed));
    let mut n = 0u64;
    for (k, c) in case["calls"].as_array().map(|a| a.as_slice()).unwrap_or(&[]).iter().enumerate() {
        let _ = tx.send(Progress::Started { case: ci, call: k });
        let fail = |what: String| {
            let _ = tx.send(Progress::Mismatch { case: ci, call: k, what });
        };
        let outcome = std::panic::catch_unwind(std::panic::AssertUnwindSafe(|| -> Result<(), String> {
            match c["k"].as_str().unwrap_or("") {
                "add" => {
                    let o: OrderType<()> = serde_json::from_value(c["order"].clone()).map_err(|e| format!("cannot decode the order: {e}"))?;
                    level.add_order(o);
                }
                "match" => {
                    let taker = OrderId::from_str(c["taker"].as_str().unwrap_or("")).map_err(|e| format!("taker id: {e}"))?;
                    let r = level.match_order(c["qty"].as_u64().unwrap_or(0), taker, &gen);
                    let fills: Vec<Value> = r.transactions.as_vec().iter().map(|t| json!([t.maker_order_id.to_string(), t.quantity])).collect();
                    let filled: Vec<Value> = r.filled_order_ids.iter().map(|f| json!(f.to_string())).collect();
                    let got = json!({"fills": fills, "remaining": r.remaining_quantity, "complete": r.is_complete, "filled": filled});
                    let want = json!({"fills": c["fills"], "remaining": c["remaining"], "complete": c["complete"], "filled": c["filled"]});
                    if got != want {
                        return Err(format!("match_order({}) returned {} on the unhooked build but {} on the instrumented build", c["qty"], got, want));
                    }
                }
                "update" => {
                    let u: OrderUpdate = serde_json::from_value(c["update"].clone()).map_err(|e| format!("cannot decode the update: {e}"))?;
                    let got = match level.update_order(u) {
                        Ok(o) => json!({"ok": o.map(|a| *a)}),
                        Err(_) => json!({"err": true}),
                    };
                    if got != c["res"] {
                        return Err(format!("update_order({}) returned {} on the unhooked build but {} on the instrumented build", c["update"], got, c["res"]));
                    }
                }
                other => return Err(format!("unknown call kind {other:?}")),
            }
            let agg = json!([level.visible_quantity(), level.hidden_quantity(), level.order_count()]);
            if agg != c["agg"] {
                return Err(format!("aggregates after the call are {} on the unhooked build but {} on the instrumented build", agg, c["agg"]));
            }
            Ok(())
        }));
        n += 1;
        match outcome {
            Ok(Ok(())) => {}
            Ok(Err(what)) => {
                fail(what);
                return Err(());
            }
            Err(p) => {
                let m = p.downcast_ref::<String>().cloned().or_else(|| p.downcast_ref::<&str>().map(|s| s.to_string())).unwrap_or_else(|| "panic".into());
                fail(format!("the call panicked on the unhooked build: {m}"));
                return Err(());
            }
        }
    }
    Ok(n)
}

/// Real threads on the unhooked build (the real dashmap shard locks and crossbeam queue): a
/// fixed amount of add / match / cancel / snapshot work per thread on one level. Oracles that hold
/// under every interleaving: every thread finishes; afterwards the aggregates equal the sums over
/// the listing and every unit added was executed, handed back by a cancel, or still rests.
/// Not replayable (the OS owns the schedule); the seed only fixes the operation mix.
fn stress(seed: u64, rounds: u64, threads: usize, ops: usize, patience: Duration) -> i32 {
    use pricelevel::{Side, TimeInForce};
    use std::sync::atomic::{AtomicU64, Ordering};
    use std::sync::Arc;
    let mut total_ops = 0u64;
    for round in 0..rounds {
        // odd rounds: the full operation mix (also amendments through all three variants, moves to
        // another price, text / JSON renderings); units are then not accounted for (an amendment's
        // delta depends on what a concurrent match left), only the state oracles apply
        let full_mix = round % 2 == 1;
        // two rounds in eight are long, the others short (a sixteenth): every round ends in a
        // quiescent comparison, and what a race among the last few operations leaves behind shows
        // only there, so many short rounds give many such endings for the same work
        let ops = if round % 8 < 2 { ops } else { (ops / 16).max(4) };
        let level = Arc::new(PriceLevel::new(100));
        let gen = Arc::new(UuidGenerator::new(uuid::Uuid::from_u128(0x57e55)));
        let supplied = Arc::new(AtomicU64::new(0));
        let executed = Arc::new(AtomicU64::new(0));
        let returned = Arc::new(AtomicU64::new(0));
        let next_id = Arc::new(AtomicU64::new(1));
        let (tx, rx) = mpsc::channel();
        for t in 0..threads {
            let (level, gen, supplied, executed, returned, next_id, tx) =
                (level.clone(), gen.clone(), supplied.clone(), executed.clone(), returned.clone(), next_id.clone(), tx.clone());
            std::thread::spawn(move || {
                let mut x = seed ^ (round.wrapping_mul(0x9E37_79B9_7F4A_7C15)) ^ ((t as u64 + 1) << 32) | 1;
                let mut rnd = move || {
                    x ^= x << 13;
                    x ^= x >> 7;
                    x ^= x << 17;
                    x
                };
                let mut mine: Vec<OrderId> = Vec::new();
                for _ in 0..ops {
                    if full_mix && rnd() % 3 == 0 {
                        if mine.is_empty() {
                            continue;
                        }
                        let id = mine[(rnd() as usize) % mine.len()];
                        let q = 1 + rnd() % 12;
                        let u = match rnd() % 7 {
                            0 | 1 => OrderUpdate::UpdateQuantity { order_id: id, new_quantity: q },
                            2 => OrderUpdate::UpdatePriceAndQuantity { order_id: id, new_price: 100, new_quantity: q },
                            3 => OrderUpdate::Replace { order_id: id, price: 100, quantity: q, side: Side::Sell },
                            4 => OrderUpdate::UpdatePrice { order_id: id, new_price: 101 },
                            5 => OrderUpdate::Replace { order_id: id, price: 99, quantity: q, side: Side::Buy },
                            _ => {
                                let _ = (serde_json::to_string(&*level).map(|t| t.len()), format!("{:?}", level.stats()).len(), level.snapshot_to_json().map(|t| t.len()));
                                continue;
                            }
                        };
                        let _ = level.update_order(u);
                        continue;
                    }
                    match rnd() % 10 {
                        0..=3 => {
                            let id = OrderId::from_u64(next_id.fetch_add(1, Ordering::Relaxed));
                            let q = 1 + rnd() % 10;
                            let o = if rnd() % 3 == 0 {
                                let h = rnd() % 12;
                                supplied.fetch_add(q + h, Ordering::Relaxed);
                                OrderType::IcebergOrder { id, price: 100, visible_quantity: q, hidden_quantity: h, side: Side::Sell, timestamp: rnd() % 50, time_in_force: TimeInForce::Gtc, extra_fields: () }
                            } else {
                                supplied.fetch_add(q, Ordering::Relaxed);
                                OrderType::Standard { id, price: 100, quantity: q, side: Side::Sell, timestamp: rnd() % 50, time_in_force: TimeInForce::Gtc, extra_fields: () }
                            };
                            level.add_order(o);
                            mine.push(id);
                        }
                        4..=6 => {
                            let r = level.match_order(1 + rnd() % 15, OrderId::from_u64(0xFFFF_0000_0000 + t as u64), &gen);
                            let e: u64 = r.transactions.as_vec().iter().map(|t| t.quantity).sum();
                            executed.fetch_add(e, Ordering::Relaxed);
                        }
                        7 | 8 => {
                            if !mine.is_empty() {
                                let k = (rnd() as usize) % mine.len();
                                let id = mine.swap_remove(k);
                                if let Ok(Some(o)) = level.update_order(OrderUpdate::Cancel { order_id: id }) {
                                    returned.fetch_add(o.visible_quantity() + o.hidden_quantity(), Ordering::Relaxed);
                                }
                            }
                        }
                        _ => {
                            let s = level.snapshot();
                            let _ = (s.orders.len(), level.to_string().len());
                        }
                    }
                }
                // every thread ends with add-then-list pairs: the round's last mutations run while
                // other threads are listing (a listing served from anything older than the last
                // mutation shows in the quiescent comparison below)
                for _ in 0..3 {
                    let id = OrderId::from_u64(next_id.fetch_add(1, Ordering::Relaxed));
                    let q = 1 + rnd() % 10;
                    supplied.fetch_add(q, Ordering::Relaxed);
                    level.add_order(OrderType::Standard { id, price: 100, quantity: q, side: Side::Sell, timestamp: rnd() % 50, time_in_force: TimeInForce::Gtc, extra_fields: () });
                    let _ = if rnd() % 2 == 0 { level.iter_orders().len() } else { level.snapshot().orders.len() };
                }
                let _ = tx.send(t);
            });
        }
        drop(tx);
        for _ in 0..threads {
            if rx.recv_timeout(patience).is_err() {
                println!("PLAIN STRESS HANG round {round}: {threads} threads x {ops} operations did not finish within {} s on the unhooked build", patience.as_secs());
                return 3;
            }
        }
        total_ops += (threads * ops) as u64;
        let listing = level.iter_orders();
        let sv: u64 = listing.iter().map(|o| o.visible_quantity()).sum();
        let sh: u64 = listing.iter().map(|o| o.hidden_quantity()).sum();
        if level.visible_quantity() != sv || level.hidden_quantity() != sh || level.order_count() != listing.len() {
            println!(
                "PLAIN STRESS MISMATCH round {round}: aggregates visible={} hidden={} count={} but the {} listed orders sum to visible={} hidden={}",
                level.visible_quantity(), level.hidden_quantity(), level.order_count(), listing.len(), sv, sh
            );
            return 1;
        }
        let (a, e, r) = (supplied.load(Ordering::Relaxed), executed.load(Ordering::Relaxed), returned.load(Ordering::Relaxed));
        if !full_mix && a != e + r + sv + sh {
            println!("PLAIN STRESS MISMATCH round {round}: {a} units were added but {e} executed + {r} handed back by cancels + {} resting = {}", sv + sh, e + r + sv + sh);
            return 1;
        }
        // a draining match reaches everything that rests (plain and iceberg orders trade in full)
        let d = level.match_order(sv + sh + 1, OrderId::from_u64(0xD7A1), &gen);
        let de: u64 = d.transactions.as_vec().iter().map(|t| t.quantity).sum();
        let left = level.iter_orders();
        if de != sv + sh || !left.is_empty() || level.visible_quantity() != 0 || level.hidden_quantity() != 0 || level.order_count() != 0 {
            println!(
                "PLAIN STRESS MISMATCH round {round}: a draining match executed {de} of the {} resting units; {} orders are still listed (aggregates {} / {} / {})",
                sv + sh, left.len(), level.visible_quantity(), level.hidden_quantity(), level.order_count()
            );
            return 1;
        }
    }
    println!("PLAIN STRESS OK rounds={rounds} operations={total_ops}");
    0
}

fn main() {
    let args: Vec<String> = std::env::args().collect();
    if args.len() >= 3 && args[1] == "stress" {
        let seed: u64 = args[2].parse().unwrap_or(1);
        let rounds: u64 = args.get(3).and_then(|s| s.parse().ok()).unwrap_or(200);
        let patience = Duration::from_secs(std::env::var("PLAIN_PATIENCE_S").ok().and_then(|s| s.parse().ok()).unwrap_or(120));
        std::process::exit(stress(seed, rounds, 8, 400, patience));
    }
    if args.len() < 2 {
        eprintln!("usage: plvplain <cases.json> [<fail-out.json>]");
        std::process::exit(2);
    }
    let text = std::fs::read_to_string(&args[1]).unwrap_or_else(|e| {
        eprintln!("cannot read {}: {e}", args[1]);
        std::process::exit(2)
    });
    let doc: Value = serde_json::from_str(&text).unwrap_or_else(|e| {
        eprintln!("bad case file: {e}");
        std::process::exit(2)
    });
    let patience = Duration::from_secs(std::env::var("PLAIN_PATIENCE_S").ok().and_then(|s| s.parse().ok()).unwrap_or(120));
    let property = doc["property"].clone();
    let cases: Vec<Value> = doc["cases"].as_array().cloned().unwrap_or_default();
    let total = cases.len();
    let (tx, rx) = mpsc::channel();
    let worker_cases = cases.clone();
    std::panic::set_hook(Box::new(|_| {}));
    std::thread::Builder::new()
        .stack_size(16 << 20)
        .spawn(move || {
            let mut calls = 0u64;
            for (i, c) in worker_cases.iter().enumerate() {
                match run_case(i, c, &tx) {
                    Ok(n) => calls += n,
                    Err(()) => return,
                }
            }
            let _ = tx.send(Progress::Done { cases: worker_cases.len(), calls });
        })
        .expect("spawn");
    let save = |case: usize| -> String {
        let out = args.get(2).cloned().unwrap_or_else(|| format!("{}.fail.json", args[1]));
        let v = json!({"property": property, "engine": "plain_replay", "cases": [cases[case]]});
        let _ = std::fs::write(&out, serde_json::to_string(&v).unwrap());
        out
    };
    let mut last = (0usize, 0usize);
    loop {
        match rx.recv_timeout(patience) {
            Ok(Progress::Started { case, call }) => last = (case, call),
            Ok(Progress::Mismatch { case, call, what }) => {
                let out = save(case);
                println!("PLAIN MISMATCH case {case} call {call}: {what}");
                println!("PLAIN FAILFILE {out}");
                std::process::exit(1);
            }
            Ok(Progress::Done { cases, calls }) => {
                println!("PLAIN OK cases={cases} calls={calls}");
                std::process::exit(0);
            }
            Err(mpsc::RecvTimeoutError::Timeout) => {
                let out = save(last.0);
                println!(
                    "PLAIN HANG case {} call {} ({}) did not return within {} s on the unhooked build (of {} cases)",
                    last.0,
                    last.1,
                    cases[last.0]["calls"][last.1]["k"],
                    patience.as_secs(),
                    total
                );
                println!("PLAIN FAILFILE {out}");
                std::process::exit(3);
            }
            Err(mpsc::RecvTimeoutError::Disconnected) => {
                println!("PLAIN worker ended without a verdict");
                std::process::exit(2);
            }
        }
    }
}
