#!/bin/bash
# tools_seeded_rerun.sh <slot> <key>... : run the target property's quick check (thorough at 10 % if
# quick misses) against each seeded change in an isolated copy /tmp/iso<slot>; one line per change.
# An inconclusive run (exit 2: build hiccup, git lock contention between lanes) is retried.
SLOT=$1; shift
export ISO=/tmp/iso$SLOT
run() { # <mode-env> <patch> <check> -> sets RC
  local out
  for attempt in 1 2 3; do
    out=$(env $1 /verif/tools_mutant_iso.sh "$2" "$3" 2>&1 | tail -1)
    RC=$(echo "$out" | sed -n 's/.* rc=\([0-9]*\) .*/\1/p')
    [ "$RC" = 0 ] || [ "$RC" = 1 ] && return
    sleep 5
  done
  RC="?($out)"
}
for key in "$@"; do
  c=${key%%-*}
  by=$(python3 -c "import json;print(json.load(open('/verif/seeded/$key/meta.json')).get('check_result',{}).get('by_check','') or '$c')")
  run "X=1" /verif/seeded/$key/patch.diff $by
  if [ "$RC" = 1 ]; then echo "$key quick CAUGHT"; continue; fi
  if [ "$RC" != 0 ]; then echo "$key INCONCLUSIVE $RC"; continue; fi
  run "MODE=thorough VERIF_SCALE=0.1 VERIF_FUZZ_RUNS=200 VERIF_PLAIN_ROUNDS=1 VERIF_PLAIN_STRESS_ROUNDS=400" /verif/seeded/$key/patch.diff $by
  if [ "$RC" = 1 ]; then echo "$key thorough10 CAUGHT"; else echo "$key MISSED rc=$RC"; fi
done
