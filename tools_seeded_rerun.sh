#!/bin/bash
# tools_seeded_rerun.sh <slot> <key>... : run the target property's quick check (thorough at 10 % if
# quick misses) against each seeded change in an isolated copy /tmp/iso<slot>; one line per change.
SLOT=$1; shift
export ISO=/tmp/iso$SLOT
for key in "$@"; do
  c=${key%%-*}
  by=$(python3 -c "import json;print(json.load(open('/verif/seeded/$key/meta.json')).get('check_result',{}).get('by_check','') or '$c')")
  out=$(/verif/tools_mutant_iso.sh /verif/seeded/$key/patch.diff $by 2>&1 | tail -1)
  if echo "$out" | grep -q "rc=1"; then echo "$key quick CAUGHT"; continue; fi
  out=$(MODE=thorough VERIF_SCALE=0.1 VERIF_FUZZ_RUNS=200 /verif/tools_mutant_iso.sh /verif/seeded/$key/patch.diff $by 2>&1 | tail -1)
  if echo "$out" | grep -q "rc=1"; then echo "$key thorough10 CAUGHT"; else echo "$key MISSED :: $out"; fi
done
