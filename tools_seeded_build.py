#!/usr/bin/env python3
"""Build /verif/seeded/<Cxx>-<A|B>/ from the confirmed sub-agent outputs and record which check catches it."""
import json, os, shutil, subprocess, sys, re
ROOT=os.environ.get('SRC_ROOT','/root/mut_results'); SUF=os.environ.get('KEYSUF',''); PFX=os.environ.get('CONFPFX','')
only = sys.argv[1:]
for d in sorted(os.listdir(ROOT)):
    for m in 'AB':
        key=f'{d}-{m}{SUF}'
        if only and key not in only: continue
        src=f'{ROOT}/{d}'
        dst=f'/verif/seeded/{key}'
        os.makedirs(dst,exist_ok=True)
        shutil.copy(f'{src}/{m}.diff', f'{dst}/patch.diff')
        # a patch written against an earlier HEAD (before a later fix commit) is re-based so that
        # `git -C /repo apply` works on the current tree
        iso=os.environ.get('ISO','/tmp/iso')+'/repo'
        if os.path.isdir(iso):
            subprocess.run(['git','-C',iso,'reset','-q','--hard'])
            if subprocess.run(['git','-C',iso,'apply','--check',f'{dst}/patch.diff'],capture_output=True).returncode!=0:
                if subprocess.run(['git','-C',iso,'apply','-3',f'{dst}/patch.diff'],capture_output=True).returncode==0:
                    d2=subprocess.run(['git','-C',iso,'diff','HEAD'],capture_output=True,text=True).stdout
                    open(f'{dst}/patch.diff','w').write(d2)
                    print(key,'patch re-based onto the current HEAD')
                subprocess.run(['git','-C',iso,'reset','-q','--hard'])
        shutil.copy(f'{src}/{m}_demo.rs', f'{dst}/demo.rs')
        agent=json.load(open(f'{src}/{m}.json'))
        ck=f'/tmp/seedchk/{PFX}{d}-{m}.result.json'
        conf=json.load(open(ck)) if os.path.exists(ck) else {}
        # run the target property's quick check against the patch
        out=subprocess.run(['/verif/tools_mutant_iso.sh', f'{dst}/patch.diff', d],capture_output=True,text=True).stdout
        mrc=re.search(r'rc=(\d+)',out)
        tier='quick'
        if mrc and mrc.group(1)=='0' and os.environ.get('THOROUGH_FALLBACK'):
            env=dict(os.environ, MODE='thorough', VERIF_SCALE=os.environ.get('THOROUGH_SCALE','0.1'), VERIF_FUZZ_RUNS='200')
            out=subprocess.run(['/verif/tools_mutant_iso.sh', f'{dst}/patch.diff', d],capture_output=True,text=True,env=env).stdout
            mrc=re.search(r'rc=(\d+)',out)
            tier='thorough (case counts scaled by '+env['VERIF_SCALE']+')'
        viol=re.search(r'violation: (.*?) VIOLATION',out,re.S)
        suite=re.findall(r'(\d+) passed; (\d+) failed',conf.get('suite_with_patch',''))
        meta={
          "property": d,
          "breaks": agent.get('summary',''),
          "needs_to_manifest": agent.get('needs',''),
          "source": os.environ.get("SOURCE_NOTE","independent sub-agent given only the property text and a scratch worktree of /repo"),
          "confirmed_by_me": {
            "how": "tools_confirm_seeded.sh in a scratch worktree under /tmp (removed afterwards): git apply patch.diff; cargo build (default and --features verif); cargo test --workspace --no-fail-fast --offline; cp demo.rs tests/seeded_demo.rs; cargo test --test seeded_demo; git checkout; demo again",
            "build_default_rc": conf.get('build_default_rc'), "build_verif_rc": conf.get('build_verif_rc'),
            "existing_suite_with_patch": [f"{a} passed / {b} failed" for a,b in suite if a!='0'],
            "demo_with_patch": conf.get('demo_with_patch','').strip(),
            "demo_without_patch": conf.get('demo_without_patch','').strip(),
            "demo_cargo_features": conf.get('demo_features','').strip(),
          },
          "check_result": {
            "tier": tier,
            "cmd": f"git -C /repo apply seeded/{key}/patch.diff && ./check {d} " + ("quick" if tier=="quick" else "thorough") + " ; git -C /repo checkout -- .",
            "exit": int(mrc.group(1)) if mrc else None,
            "violation": (viol.group(1).strip()[:700] if viol else None),
          },
        }
        json.dump(meta,open(f'{dst}/meta.json','w'),indent=1)
        print(key, tier, 'check exit', meta['check_result']['exit'], (meta['check_result']['violation'] or '')[:100])
