#!/bin/bash
# Build the framework offline from files on disk (run once after a fresh restore).
set -e
cd "$(dirname "$0")"
export CARGO_NET_OFFLINE=true
( cd harness && cargo build --release )
( cd plain && cargo build --release )
if [ -d fuzz ] && [ -f fuzz/Cargo.toml ]; then
  ( cd fuzz && cargo +nightly fuzz build --fuzz-dir "$(pwd)" -s none 2>&1 | tail -3 ) || echo "fuzz build failed (thorough tiers that use libFuzzer will report exit 2)" >&2
fi
echo "setup done"
