#!/bin/bash
# tools_mutant_iso.sh <patch.diff> <Cxx>... : like tools_mutant.sh but fully isolated from /repo and
# /verif: a scratch worktree of /repo's HEAD with the patch applied and a scratch copy of the harness
# pointing at it (use while a long run is reading /repo). Scratch lives under /tmp/iso (remove when done).
set -u
P="$(readlink -f "$1")"; shift
ISO=${ISO:-/tmp/iso}
mkdir -p $ISO
git -C /repo worktree prune
if [ ! -d $ISO/repo ]; then git -C /repo worktree add -q --detach $ISO/repo HEAD || exit 2; fi
git -C $ISO/repo checkout -q --detach "$(git -C /repo rev-parse HEAD)" && git -C $ISO/repo reset -q --hard && git -C $ISO/repo clean -fdq -e target
git -C $ISO/repo apply "$P" 2>/dev/null || git -C $ISO/repo apply -3 "$P" 2>/dev/null || { echo "patch does not apply" >&2; exit 2; }
mkdir -p $ISO/verif
rsync -a --delete --exclude target --exclude 'run' --exclude '.build*' /verif/harness /verif/plain /verif/check /verif/known /verif/known_findings.json $ISO/verif/ 2>/dev/null
mkdir -p $ISO/verif/harness
sed -i "s#path = \"/repo\"#path = \"$ISO/repo\"#" $ISO/verif/harness/Cargo.toml $ISO/verif/plain/Cargo.toml
for id in "$@"; do
  out=$(VERIF_ROOT=$ISO/verif VERIF_EVIDENCE=$ISO/verif/ev-$id.json $ISO/verif/check "$id" ${MODE:-quick} 2>&1); rc=$?
  echo "== $id rc=$rc :: $(echo "$out" | grep -E 'violation:|VIOLATION|BUILD FAILED|WATCHDOG' | head -3 | tr '\n' ' ' | cut -c1-500)"
done
git -C $ISO/repo reset -q --hard
