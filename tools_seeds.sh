#!/bin/bash
# tools_seeds.sh <seed>... : run every quick check under each seed, print only non-zero exits
for seed in "$@"; do for c in C01 C02 C03 C04 C05 C06 C07 C08 C09 C10 C11 C12 C13 C14 C15 C16 C17 C18 C19; do out=$(VERIF_SEED=$seed VERIF_EVIDENCE=/verif/harness/target/ev-$c.json /verif/check $c quick 2>&1); rc=$?; if [ $rc -ne 0 ]; then echo "seed=$seed $c rc=$rc :: $(echo "$out" | grep -E 'violation|VIOLATION' | head -2 | cut -c1-500)"; fi; done; echo "seed $seed done"; done
